"""
Palettes (DESIGN section 3).  All numbers are dyadic rationals.  Nothing here imports dreye.
"""

import itertools

import numpy as np

QUICK_SHAPES = [(2, 2), (2, 3), (3, 3), (3, 4), (2, 4), (3, 2), (1, 2), (2, 1), (3, 5), (4, 4), (4, 5), (4, 6)]
THOROUGH_SHAPES = [(m, n) for m in range(1, 6) for n in range(1, 9)]


def gauss_A(m, positions):
    """capture matrix from Gaussian sensitivities: receptor i centred at (i+1/2)/m, source at grid position p/(2m)."""
    A = np.zeros((m, len(positions)))
    for i in range(m):
        ci = (i + 0.5) / m
        for k, p in enumerate(positions):
            d = ci - p / (2.0 * m)
            A[i, k] = round(8 * (6 * np.exp(-d * d / 0.125) + 0.25)) / 8.0
    return A


def A_palette(m, n, seed=0, seeded=True, zeros=False):
    """list of (name, A). Fixed: ascending spread + one non-monotone order; seeded: entries uniform on the 1/64 grid."""
    npos = 2 * m + 1
    out = []
    if n <= npos:
        idx = np.unique(np.round(np.linspace(0, npos - 1, n)).astype(int))
        if len(idx) < n:
            idx = np.arange(n)
        pos = [int(v) for v in idx]
        out.append(("asc", gauss_A(m, pos)))
        if n >= 3:
            perm = pos[1::2] + pos[0::2][::-1]
            out.append(("perm", gauss_A(m, perm)))
    else:
        # more sources than grid positions: half-grid positions as well
        pos = list(np.linspace(0, npos - 1, n))
        out.append(("asc", gauss_A(m, pos)))
    if zeros and n >= 2 and m >= 2:
        # exact zeros: every source is invisible to the receptors it excites least
        Z = out[0][1].copy()
        Z[Z < 1.0] = 0.0
        if np.linalg.matrix_rank(Z) == min(m, n) and np.all(Z.sum(0) > 0) and np.all(Z.sum(1) > 0):
            out.append(("zeros", Z))
    if seeded:
        rng = np.random.default_rng(1000003 * (seed + 1) + 97 * m + n)
        for _ in range(50):
            A = np.round(rng.uniform(0.3, 6.0, (m, n)) * 64) / 64.0
            r = min(m, n)
            s = np.linalg.svd(A, compute_uv=False)
            if s[r - 1] > 1e-3 * s[0] * 3:
                out.append(("seeded", A))
                break
    return out


def bounds_menu(n):
    k = np.arange(n)
    mixed = np.where(k % 2 == 1, 0.25 + k / 8.0, 0.0)  # zero and positive lower bounds in one system
    if n == 1:
        mixed = np.array([0.375])
    return [
        ("ub-finite", 0.0 * k, 1.0 + k / 4.0),
        ("lb-pos", 0.25 + k / 8.0, 0.25 + k / 8.0 + 1.0 + k / 4.0),
        ("scalar", 0.125, 2.0),
        ("default", None, None),
        ("lb-mixed", mixed, mixed + 1.5 - k / 8.0),
        # unbounded sources with lower bounds on both sides of 1 (the stand-in box of the cone must start at lb)
        ("unbounded-lb", np.where(k % 2 == 0, 1.25 + k / 4.0, 0.5), None),
    ]


def K_menu(m):
    i = np.arange(m)
    vec = 0.5 + 0.375 * i
    # deliberately NOT symmetric: upper off-diagonals 0.125, lower 0.25 (+ a gradient)
    off = np.triu(np.full((m, m), 0.125), 1) + np.tril(np.full((m, m), 0.25), -1) * (1 + 0.25 * np.arange(m))[None, :]
    menu = [("default", None), ("scalar", 0.5), ("vector", vec)]
    if m >= 2:
        menu.append(("matrix-pos", np.diag(vec) + off))
        menu.append(("matrix-neg", np.diag(vec) - off))
    return menu


def baseline_menu(m):
    i = np.arange(m)
    return [("default", None), ("scalar", 0.5), ("vector", 0.25 + 0.25 * i)]


def w_menu(m):
    base = np.array([1.0, 2.0, 0.5, 1.5, 0.75])
    return [("default", None), ("vector", base[:m])]


def deviations(menus, order):
    """configurations with at most `order` menus departing from their first (default) option.
    menus: list of lists.  yields tuples of indices."""
    k = len(menus)
    seen = set()
    for r in range(0, order + 1):
        for which in itertools.combinations(range(k), r):
            for choice in itertools.product(*[range(1, len(menus[j])) for j in which]):
                idx = [0] * k
                for j, c in zip(which, choice):
                    idx[j] = c
                t = tuple(idx)
                if t not in seen:
                    seen.add(t)
                    yield t


def lattice(lo, hi, levels):
    """all points of prod_k {lo_k + l*(hi_k-lo_k) : l in levels}"""
    lo = np.asarray(lo, dtype=float)
    hi = np.asarray(hi, dtype=float)
    n = lo.size
    pts = []
    for combo in itertools.product(levels, repeat=n):
        pts.append(lo + np.array(combo) * (hi - lo))
    return np.array(pts)


def systems(shapes, seed=0, order=2, bounds=None, Ks=None, baselines=None, seeded=True, cross=False, zeros=False):
    """enumerate system specs: shape x A palette fully crossed; (bounds, K, baseline) with a deviation bound
    `order` from the first option of each menu (cross=True: full cross product).
    yields (names, A, (lb, ub), K, baseline)"""
    for (m, n) in shapes:
        bm = bounds_menu(n)
        km = K_menu(m)
        sm = baseline_menu(m)
        if bounds is not None:
            bm = [b for b in bm if b[0] in bounds]
            bm.sort(key=lambda b: bounds.index(b[0]))
        if Ks is not None:
            km = [k for k in km if k[0] in Ks]
            km.sort(key=lambda k: Ks.index(k[0]))
        if baselines is not None:
            sm = [s for s in sm if s[0] in baselines]
            sm.sort(key=lambda s: baselines.index(s[0]))
        for aname, A in A_palette(m, n, seed=seed, seeded=seeded, zeros=zeros):
            menus = [bm, km, sm]
            if cross:
                combos = itertools.product(*[range(len(x)) for x in menus])
            else:
                combos = deviations(menus, order)
            for (ib, ik, isb) in combos:
                names = dict(shape="%dx%d" % (m, n), A=aname, bounds=bm[ib][0], K=km[ik][0], baseline=sm[isb][0])
                yield names, A, (bm[ib][1], bm[ib][2]), km[ik][1], sm[isb][1]
