"""
Build real dreye objects through the public API only, from a JSON-able system spec:
  spec = dict(A=[[..]], lb=None|num|list, ub=None|num|list, K=None|num|list|matrix, baseline=None|num|list, w=None|list)
The capture matrix is realised exactly: filters = [0 | A | 0] on a unit-step domain and one-hot sources on the
interior grid points (trapezoid rule with dx=1 gives integral = A[i, k] exactly).
"""

import numpy as np


def spec_of(A, lb=None, ub=None, K=None, baseline=None, w=None):
    def c(v):
        if v is None:
            return None
        v = np.asarray(v, dtype=float)
        return float(v) if v.ndim == 0 else v.tolist()

    return dict(A=np.asarray(A, dtype=float).tolist(), lb=c(lb), ub=c(ub), K=c(K), baseline=c(baseline), w=c(w))


def arr(v):
    return None if v is None else (v if isinstance(v, (int, float)) else np.array(v, dtype=float))


def filters_sources(A):
    A = np.asarray(A, dtype=float)
    m, n = A.shape
    filters = np.zeros((m, n + 2))
    filters[:, 1:-1] = A
    sources = np.zeros((n, n + 2))
    sources[np.arange(n), 1 + np.arange(n)] = 1.0
    return filters, sources


def make_est(spec, register=True, rec=None):
    import dreye

    filters, sources = filters_sources(spec["A"])
    kw = {}
    if spec.get("K") is not None:
        kw["K"] = arr(spec["K"])
    if spec.get("baseline") is not None:
        kw["baseline"] = arr(spec["baseline"])
    if spec.get("w") is not None:
        kw["w"] = arr(spec["w"])
    est = dreye.ReceptorEstimator(filters, domain=1.0, **kw)
    if rec is not None:
        rec.trans()
    if register:
        est.register_system(sources, lb=arr(spec.get("lb")), ub=arr(spec.get("ub")))
        if rec is not None:
            rec.trans()
    return est


def script_est(spec):
    """python source that rebuilds the estimator (for stand-alone replay files)."""
    filters, sources = filters_sources(spec["A"])
    lines = [
        "import numpy as np, dreye",
        "filters = np.array(%r)" % filters.tolist(),
        "sources = np.array(%r)" % sources.tolist(),
    ]
    kw = []
    for k in ("K", "baseline", "w"):
        if spec.get(k) is not None:
            v = spec[k]
            kw.append("%s=%s" % (k, repr(v) if isinstance(v, (int, float)) else "np.array(%r)" % (v,)))
    lines.append("est = dreye.ReceptorEstimator(filters, domain=1.0%s)" % ("".join(", " + s for s in kw)))

    def b(v):
        return "None" if v is None else (repr(v) if isinstance(v, (int, float)) else "np.array(%r)" % (v,))

    lines.append("est.register_system(sources, lb=%s, ub=%s)" % (b(spec.get("lb")), b(spec.get("ub"))))
    return "\n".join(lines) + "\n"


def model_of(spec, relative=True):
    """oracle-side model: (Abar, c0, lo, hi)."""
    from mc import oracles as O

    A = np.asarray(spec["A"], dtype=float)
    if relative:
        Abar, c0 = O.transform(A, arr(spec.get("K")), arr(spec.get("baseline")))
    else:
        Abar, c0 = A.copy(), np.zeros(A.shape[0])
    lo, hi = O.bounds_arrays(arr(spec.get("lb")), arr(spec.get("ub")), A.shape[1])
    return Abar, c0, lo, hi


def state_key(est):
    """canonical key of the estimator state: bytes of every instance attribute, generically."""
    parts = []
    for k in sorted(vars(est)):
        v = getattr(est, k)
        if isinstance(v, np.ndarray):
            parts.append((k, v.shape, str(v.dtype), v.tobytes() if v.dtype != object else repr(v.tolist())))
        else:
            parts.append((k, repr(v)))
    return repr(parts)
