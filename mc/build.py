"""
Build real dreye objects through the public API only, from a JSON-able system spec:
  spec = dict(A=[[..]], lb=None|num|list, ub=None|num|list, K=None|num|list|matrix, baseline=None|num|list, w=None|list)
The capture matrix is realised exactly: filters = [0 | A | 0] on a unit-step domain and one-hot sources on the
interior grid points (trapezoid rule with dx=1 gives integral = A[i, k] exactly).
"""

import numpy as np


def spec_of(A, lb=None, ub=None, K=None, baseline=None, w=None):
    def c(v):
        if v is None:
            return None
        v = np.asarray(v, dtype=float)
        return float(v) if v.ndim == 0 else v.tolist()

    return dict(A=np.asarray(A, dtype=float).tolist(), lb=c(lb), ub=c(ub), K=c(K), baseline=c(baseline), w=c(w))


def arr(v):
    return None if v is None else (v if isinstance(v, (int, float)) else np.array(v, dtype=float))


def filters_sources(A):
    A = np.asarray(A, dtype=float)
    m, n = A.shape
    filters = np.zeros((m, n + 2))
    filters[:, 1:-1] = A
    sources = np.zeros((n, n + 2))
    sources[np.arange(n), 1 + np.arange(n)] = 1.0
    return filters, sources


def make_est(spec, register=True, rec=None):
    import dreye

    filters, sources = filters_sources(spec["A"])
    kw = {}
    if spec.get("K") is not None:
        kw["K"] = arr(spec["K"])
    if spec.get("baseline") is not None:
        kw["baseline"] = arr(spec["baseline"])
    if spec.get("w") is not None:
        kw["w"] = arr(spec["w"])
    est = dreye.ReceptorEstimator(filters, domain=1.0, **kw)
    if rec is not None:
        rec.trans()
    if register:
        route, lb0, ub0 = registration_route(spec)
        if route == "ub-later":
            # bounds registered in two steps: a provisional upper bound with the system, the real one alone afterwards
            # (register_bounds updates the bound it is given and keeps the other one)
            est.register_system(sources, lb=arr(spec.get("lb")), ub=arr(ub0))
            est.register_bounds(ub=arr(spec.get("ub")))
        elif route == "lb-later":
            est.register_system(sources, lb=arr(lb0), ub=arr(spec.get("ub")))
            est.register_bounds(lb=arr(spec.get("lb")))
        else:
            est.register_system(sources, lb=arr(spec.get("lb")), ub=arr(spec.get("ub")))
        if rec is not None:
            rec.trans(1 if route == "direct" else 2)
    return est


def registration_route(spec):
    """how the bounds of this system get registered: 'direct' (with the system) or in two steps through register_bounds
    ('ub-later' / 'lb-later').  A deterministic function of the spec (a quarter of the systems with both bounds given each),
    so that every check that builds estimators also covers the partial bound update; the resulting state is the same."""
    import hashlib
    import json

    lb, ub = spec.get("lb"), spec.get("ub")
    if lb is None or ub is None:
        return "direct", None, None
    n = len(spec["A"][0])
    lbv = np.broadcast_to(np.asarray(lb, dtype=float), (n,))
    ubv = np.broadcast_to(np.asarray(ub, dtype=float), (n,))
    if not (np.all(np.isfinite(lbv)) and np.all(lbv >= 0) and np.all(ubv > lbv) and np.any(lbv > 0)):
        return "direct", None, None
    h = int(hashlib.sha1(json.dumps(spec, sort_keys=True).encode()).hexdigest(), 16) % 4
    if h == 0:
        return "ub-later", None, (lbv + 7.0).tolist()
    if h == 2:
        return "lb-later", (lbv * 0.0).tolist(), None
    return "direct", None, None


def script_est(spec):
    """python source that rebuilds the estimator (for stand-alone replay files)."""
    filters, sources = filters_sources(spec["A"])
    lines = [
        "import numpy as np, dreye",
        "filters = np.array(%r)" % filters.tolist(),
        "sources = np.array(%r)" % sources.tolist(),
    ]
    kw = []
    for k in ("K", "baseline", "w"):
        if spec.get(k) is not None:
            v = spec[k]
            kw.append("%s=%s" % (k, repr(v) if isinstance(v, (int, float)) else "np.array(%r)" % (v,)))
    lines.append("est = dreye.ReceptorEstimator(filters, domain=1.0%s)" % ("".join(", " + s for s in kw)))

    def b(v):
        return "None" if v is None else (repr(v) if isinstance(v, (int, float)) else "np.array(%r)" % (v,))

    route, lb0, ub0 = registration_route(spec)
    if route == "ub-later":
        lines.append("est.register_system(sources, lb=%s, ub=%s)" % (b(spec.get("lb")), b(ub0)))
        lines.append("est.register_bounds(ub=%s)" % b(spec.get("ub")))
    elif route == "lb-later":
        lines.append("est.register_system(sources, lb=%s, ub=%s)" % (b(lb0), b(spec.get("ub"))))
        lines.append("est.register_bounds(lb=%s)" % b(spec.get("lb")))
    else:
        lines.append("est.register_system(sources, lb=%s, ub=%s)" % (b(spec.get("lb")), b(spec.get("ub"))))
    return "\n".join(lines) + "\n"


def model_of(spec, relative=True):
    """oracle-side model: (Abar, c0, lo, hi)."""
    from mc import oracles as O

    A = np.asarray(spec["A"], dtype=float)
    if relative:
        Abar, c0 = O.transform(A, arr(spec.get("K")), arr(spec.get("baseline")))
    else:
        Abar, c0 = A.copy(), np.zeros(A.shape[0])
    lo, hi = O.bounds_arrays(arr(spec.get("lb")), arr(spec.get("ub")), A.shape[1])
    return Abar, c0, lo, hi


def state_key(est):
    """canonical key of the estimator state: bytes of every instance attribute, generically."""
    parts = []
    for k in sorted(vars(est)):
        v = getattr(est, k)
        if isinstance(v, np.ndarray):
            parts.append((k, v.shape, str(v.dtype), v.tobytes() if v.dtype != object else repr(v.tolist())))
        else:
            parts.append((k, repr(v)))
    return repr(parts)
