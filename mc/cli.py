import argparse
import os
import sys


def main():
    ap = argparse.ArgumentParser()
    ap.add_argument("prop")
    ap.add_argument("--tier", default=os.environ.get("VERIF_TIER", "quick"), choices=["quick", "thorough"])
    ap.add_argument("--replay", default=None)
    ap.add_argument("--jobs", type=int, default=None)
    ap.add_argument("--cap", type=float, default=None)
    ap.add_argument("--quiet", action="store_true")
    a = ap.parse_args()
    try:
        seed = int(os.environ.get("VERIF_SEED", "0"))
    except ValueError:
        seed = 0
    from mc import kernel

    rc = kernel.run_check(a.prop.upper(), tier=a.tier, seed=seed, replay=a.replay, jobs=a.jobs, cap_s=a.cap, quiet=a.quiet)
    sys.stdout.flush()
    sys.stderr.flush()
    os._exit(rc)


if __name__ == "__main__":
    main()
