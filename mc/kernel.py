"""
Explorer kernel: bounded-exhaustive enumeration of units / paths on the real code,
sharded over long-lived worker processes, with violation classes, known findings,
replay files and evidence.

A check module provides
    PROPERTY                 "Cxx"
    units(tier, seed)     -> list of JSON-able unit descriptors (simplest first)
    run_unit(unit, rec)      executes every path of the unit on the implementation and
                             reports through the recorder
    RULE                     text: how cases are enumerated / what is non-trivial
    ASSUMPTIONS              list of text
"""

import collections
import hashlib
import json
import multiprocessing as mp
import os
import sys
import time
import traceback

VERIF = os.path.dirname(os.path.dirname(os.path.abspath(__file__)))
REPO = os.environ.get("DREYE_VERIF_REPO", "/repo")


def _h(obj):
    if isinstance(obj, bytes):
        b = obj
    else:
        b = repr(obj).encode()
    return hashlib.blake2b(b, digest_size=8).hexdigest()


def jsonable(o):
    import numpy as np

    if isinstance(o, dict):
        return {str(k): jsonable(v) for k, v in o.items()}
    if isinstance(o, (list, tuple)):
        return [jsonable(v) for v in o]
    if isinstance(o, np.ndarray):
        return jsonable(o.tolist())
    if isinstance(o, (np.floating,)):
        return jsonable(float(o))
    if isinstance(o, (np.integer,)):
        return int(o)
    if isinstance(o, (np.bool_,)):
        return bool(o)
    if isinstance(o, float):
        if o != o:
            return "nan"
        if o in (float("inf"), float("-inf")):
            return "inf" if o > 0 else "-inf"
        return o
    if isinstance(o, (str, int, bool)) or o is None:
        return o
    return repr(o)


def exc_sig(e):
    """categorical description of an exception for violation signatures"""
    import re

    msg = re.sub(r"[0-9]+(\.[0-9]+)?", "#", str(e))[:70]
    return dict(exc=type(e).__name__, msg=msg)


class Rec:
    """Per-unit recorder (picklable)."""

    MAX_VIOL_PER_CLASS = 3

    def __init__(self):
        self.paths = 0
        self.transitions = 0
        self.states = set()
        self.nontrivial = set()
        self.outcomes = collections.Counter()
        self.info = collections.Counter()
        self.viol = []  # dicts
        self._viol_count = collections.Counter()
        self.samples = []
        self.stats = {}  # name -> max value
        self.only_case = None  # replay mode: restrict to this case id (checks may ignore)

    # -- counters -----------------------------------------------------------
    def path(self, n=1):
        self.paths += n

    def trans(self, n=1):
        self.transitions += n

    def state(self, key):
        self.states.add(_h(key))

    def distinct(self, key):
        """a distinct non-trivial case (by the module's RULE)"""
        self.nontrivial.add(_h(key))

    def outcome(self, cls, n=1):
        self.outcomes[cls] += n

    def count(self, name, n=1):
        self.info[name] += n

    def stat_max(self, name, value):
        v = float(value)
        if name not in self.stats or v > self.stats[name]:
            self.stats[name] = v

    def sample(self, obj, cap=2):
        if len(self.samples) < cap:
            self.samples.append(jsonable(obj))

    # -- verdicts -----------------------------------------------------------
    def violation(self, clause, sig, what, case, observed=None, expected=None, script=None, keys=None):
        """clause: clause id of appendix A; sig: categorical signature (dict of str);
        keys: the subset of signature keys that identify the violation class (default: all);
        case: JSON-able descriptor sufficient to re-run this path inside its unit."""
        if "what" in sig:
            import re

            sig = dict(sig, what=re.sub(r"-?[0-9]+(\.[0-9]+)?(e-?[0-9]+)?", "#", str(sig["what"])))
        if keys is not None:
            case = dict(case or {}, full_signature={k: str(v) for k, v in sig.items()})
            sig = {k: v for k, v in sig.items() if k in keys}
        key = (clause, tuple(sorted((k, str(v)) for k, v in sig.items())))
        self._viol_count[key] += 1
        if self._viol_count[key] > self.MAX_VIOL_PER_CLASS:
            return
        self.viol.append(
            dict(
                clause=clause,
                sig={k: str(v) for k, v in sig.items()},
                what=str(what)[:600],
                case=jsonable(case),
                observed=jsonable(observed),
                expected=jsonable(expected),
                script=script,
            )
        )

    def check(self, ok, clause, sig, what, case, **kw):
        if not ok:
            self.violation(clause, sig, what, case, **kw)
        return bool(ok)


# ---------------------------------------------------------------------------
# worker side


_MODULE = None


def _load(prop):
    import importlib

    if VERIF not in sys.path:
        sys.path.insert(0, VERIF)
    if REPO not in sys.path or sys.path.index(REPO) != 0:
        sys.path.insert(0, REPO)
    return importlib.import_module("checks." + prop.lower())


def _run_one(args):
    prop, idx, unit = args
    global _MODULE
    if _MODULE is None:
        _MODULE = _load(prop)
    rec = Rec()
    t0 = time.time()
    err = None
    try:
        _MODULE.run_unit(unit, rec)
    except Exception:  # harness error, not a verdict
        err = traceback.format_exc()
    return idx, rec, err, time.time() - t0


# ---------------------------------------------------------------------------
# findings


def load_findings():
    p = os.path.join(VERIF, "known_findings.json")
    if not os.path.exists(p):
        return []
    with open(p) as f:
        return json.load(f).get("findings", [])


def match_finding(findings, prop, clause, sig):
    for f in findings:
        if f.get("status") != "open" or f.get("property") != prop:
            continue
        cl = f.get("clause")
        if cl is not None:
            if isinstance(cl, list):
                if clause not in cl:
                    continue
            elif cl != clause:
                continue
        ok = True
        for k, v in f.get("where", {}).items():
            have = sig.get(k)
            if isinstance(v, list):
                if have not in [str(x) for x in v]:
                    ok = False
            elif have != str(v):
                ok = False
        if ok:
            return f
    return None


# ---------------------------------------------------------------------------
# driver


def run_check(prop, tier="quick", seed=0, replay=None, jobs=None, cap_s=None, quiet=False):
    t_start = time.time()
    mod = _load(prop)
    global _MODULE
    _MODULE = mod

    if replay:
        return run_replay(mod, prop, replay)

    units = list(mod.units(tier, seed))
    flt = os.environ.get("VERIF_UNIT_FILTER")  # development aid only: "key=value,key=value"
    if flt:
        for kv in flt.split(","):
            k, v = kv.split("=")
            units = [u for u in units if str(u.get(k, (u.get("names") or {}).get(k))) == v]
        sys.stderr.write("NOTE: unit filter %r active: %d units (development run, not a registered check)\n" % (flt, len(units)))
    if cap_s is None:
        cap_s = getattr(mod, "CAP_S", {}).get(tier, 900 if tier == "quick" else 7200)
    jobs = jobs or int(os.environ.get("VERIF_JOBS", "16"))
    jobs = max(1, min(jobs, len(units)))

    total = Rec()
    errors = []
    viols = []  # (unit idx, viol dict)
    done = 0
    capped = False
    unit_times = []

    work = [(prop, i, u) for i, u in enumerate(units)]
    if jobs == 1:
        results = map(_run_one, work)
        pool = None
    else:
        ctx = mp.get_context("fork")
        pool = ctx.Pool(jobs)
        results = pool.imap_unordered(_run_one, work, chunksize=1)
    try:
        for idx, rec, err, dt in results:
            done += 1
            unit_times.append(dt)
            total.paths += rec.paths
            total.transitions += rec.transitions
            total.states |= rec.states
            total.nontrivial |= rec.nontrivial
            total.outcomes.update(rec.outcomes)
            total.info.update(rec.info)
            for k, v in rec.stats.items():
                total.stat_max(k, v)
            if len(total.samples) < 4:
                total.samples.extend(rec.samples[: 4 - len(total.samples)])
            for v in rec.viol:
                viols.append((idx, v))
            if err:
                errors.append((idx, err))
            if time.time() - t_start > cap_s:
                capped = True
                break
    finally:
        if pool is not None:
            pool.terminate()
            pool.join()

    if errors:
        # harness errors are never verdicts about dreye
        sys.stderr.write("INTERNAL ERROR in %d unit(s); first:\n%s\n" % (len(errors), errors[0][1]))
        write_evidence(mod, prop, tier, seed, total, units, done, capped, t_start, 0, [], [], internal_error=errors[0][1][-400:])
        return 2

    # ---- violation classes ------------------------------------------------
    viols.sort(key=lambda t: t[0])
    classes = collections.OrderedDict()
    for idx, v in viols:
        key = (v["clause"], tuple(sorted(v["sig"].items())))
        if key not in classes:
            classes[key] = dict(rep=v, unit=idx, n=0)
        classes[key]["n"] += 1

    findings = load_findings()
    known_lines = collections.OrderedDict()
    new_classes = []
    for key, c in classes.items():
        f = match_finding(findings, prop, c["rep"]["clause"], c["rep"]["sig"])
        if f is not None:
            known_lines.setdefault(f.get("id", f["what"]), f)
        else:
            new_classes.append(c)

    # determinism: re-execute the unit of each new class in this process (up to 3 times). A class that never
    # reproduces is dropped (and counted); if NO class of the run reproduces the run is not trusted (exit 2,
    # no VIOLATION line).  On the unchanged tree everything is deterministic, so a non-reproducing failure
    # points at non-determinism introduced into the code under test; the reproducing classes are still reported.
    confirmed = []
    flaky = 0
    rerun_cache = {}
    for c in new_classes[:40]:
        key = (c["rep"]["clause"], tuple(sorted(c["rep"]["sig"].items())))
        ok = False
        for attempt in range(3):
            ck = (c["unit"], attempt)
            if ck not in rerun_cache:
                rec2 = Rec()
                try:
                    mod.run_unit(units[c["unit"]], rec2)
                except Exception:
                    sys.stderr.write("INTERNAL ERROR while re-executing a violating unit:\n" + traceback.format_exc())
                    return 2
                rerun_cache[ck] = {(v["clause"], tuple(sorted(v["sig"].items()))) for v in rec2.viol}
            if key in rerun_cache[ck]:
                ok = True
                break
        if ok:
            confirmed.append(c)
        else:
            flaky += 1
            sys.stderr.write("NOTE: violation class did not reproduce in 3 re-executions (dropped): %r\n" % (key,))
    if new_classes and not confirmed:
        sys.stderr.write("INTERNAL ERROR: none of the %d violation classes reproduced on re-execution\n" % len(new_classes))
        return 2
    confirmed.extend(new_classes[40:])
    total.info["non-reproducing-violation-classes"] = flaky

    replay_dir = os.environ.get("VERIF_REPLAY_DIR") or os.path.join(VERIF, "replays")
    lines = []
    for c in confirmed:
        os.makedirs(replay_dir, exist_ok=True)
        v = c["rep"]
        blob = dict(property=prop, clause=v["clause"], sig=v["sig"], what=v["what"], tier=tier, seed=seed,
                    unit=jsonable(units[c["unit"]]), case=v["case"], observed=v["observed"], expected=v["expected"],
                    class_size=c["n"])
        hid = _h(json.dumps([prop, v["clause"], v["sig"]], sort_keys=True))
        path = os.path.join(replay_dir, "%s-%s.json" % (prop, hid))
        with open(path, "w") as f:
            json.dump(blob, f, indent=1)
        if v.get("script"):
            with open(path[:-5] + ".py", "w") as f:
                f.write(v["script"])
        lines.append("VIOLATION property=%s replay=%s" % (prop, path))
        if not quiet and len(lines) <= 40:
            sys.stderr.write("  class clause=%s sig=%s n=%d: %s\n" % (v["clause"], v["sig"], c["n"], v["what"][:200]))

    for fid, f in known_lines.items():
        print("KNOWN-FINDING: property=%s %s" % (prop, f["what"]))
    for ln in lines[:50]:
        print(ln)

    write_evidence(mod, prop, tier, seed, total, units, done, capped, t_start, len(confirmed),
                   [c["rep"] for c in confirmed[:5]], list(known_lines.keys()))
    if not quiet:
        sys.stderr.write(
            "%s tier=%s seed=%d units=%d/%d paths=%d transitions=%d states=%d classes=%s wall=%.1fs%s\n"
            % (prop, tier, seed, done, len(units), total.paths, total.transitions, len(total.states),
               dict(total.outcomes.most_common(8)), time.time() - t_start, " CAPPED" if capped else "")
        )
    return 1 if confirmed else 0


def write_evidence(mod, prop, tier, seed, total, units, done, capped, t_start, nviol, viol_samples, known, internal_error=None):
    cov = dict(
        states=max(1, len(total.states)),
        transitions=max(1, total.transitions),
        traces_validated_against_impl=total.paths,
        evaluations=max(1, total.paths),
        distinct_nontrivial=len(total.nontrivial),
        rule=getattr(mod, "RULE", ""),
        samples=total.samples[:4] or [jsonable(units[0])] if units else [],
        units_total=len(units),
        units_completed=done,
        exhaustive=(not capped and done == len(units) and internal_error is None),
        capped=capped,
        outcome_classes=dict(total.outcomes),
        counters=dict(total.info),
        stats=total.stats,
        known_findings_reported=known,
        violation_samples=viol_samples,
        bounds=getattr(mod, "BOUNDS", {}).get(tier, ""),
        trusted_base=getattr(mod, "TRUSTED", ["numpy/scipy linear algebra inside the oracles", "Python fractions"]),
        repo=REPO,
    )
    if internal_error:
        cov["internal_error"] = internal_error
    ev = dict(
        property_id=prop,
        tier=tier,
        seed=int(seed),
        level="model_checking",
        coverage=cov,
        assumptions=getattr(mod, "ASSUMPTIONS", []),
        wall_s=round(time.time() - t_start, 2),
        violations=nviol,
    )
    d = os.environ.get("VERIF_EVIDENCE_DIR") or os.path.join(VERIF, "evidence")  # (override used only by mutation demonstrations)
    os.makedirs(d, exist_ok=True)
    tmp = os.path.join(d, prop + ".json.tmp")
    with open(tmp, "w") as f:
        json.dump(ev, f, indent=1)
    os.replace(tmp, os.path.join(d, prop + ".json"))


def run_replay(mod, prop, path):
    with open(path) as f:
        blob = json.load(f)
    rec = Rec()
    rec.only_case = blob.get("case")
    mod.run_unit(blob["unit"], rec)
    key = (blob["clause"], tuple(sorted(blob["sig"].items())))
    hit = [v for v in rec.viol if (v["clause"], tuple(sorted(v["sig"].items()))) == key]
    if hit:
        v = hit[0]
        print("REPRODUCED property=%s clause=%s sig=%s" % (prop, v["clause"], v["sig"]))
        print("  what: %s" % v["what"])
        print("  observed: %s" % json.dumps(v["observed"])[:400])
        print("  expected: %s" % json.dumps(v["expected"])[:400])
        print("VIOLATION property=%s replay=%s" % (prop, path))
        return 1
    print("NOT REPRODUCED property=%s clause=%s (the recorded violation does not occur on this tree)" % (prop, blob["clause"]))
    return 0
