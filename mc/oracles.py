"""
Reference models / oracles.  Nothing in this file imports dreye.
"""

import itertools
import math
from fractions import Fraction

import numpy as np

# ---------------------------------------------------------------------------
# O-TRAPZ


def trapz_exact(y, x=None, dx=None):
    """Exact trapezoid rule in rational arithmetic. y: sequence of numbers; x: ascending grid or None (dx)."""
    y = [Fraction(float(v)) for v in y]
    n = len(y)
    if x is None:
        dxs = [Fraction(float(dx))] * (n - 1)
    else:
        x = [Fraction(float(v)) for v in x]
        dxs = [x[k + 1] - x[k] for k in range(n - 1)]
    s = Fraction(0)
    for k in range(n - 1):
        s += (y[k] + y[k + 1]) * dxs[k] / 2
    return s


def rect_exact(y, dx):
    return sum(Fraction(float(v)) for v in y) * Fraction(float(dx))


def trapz_weights(d, x=None, dx=None):
    """weights w such that trapz(y) = sum_k w_k y_k (float)."""
    if x is None:
        xs = np.arange(d) * float(dx)
    else:
        xs = np.asarray(x, dtype=float)
    w = np.zeros(d)
    diffs = np.diff(xs)
    w[:-1] += diffs / 2
    w[1:] += diffs / 2
    return w


def capture_ref(filters, signals, x=None, dx=None, trapz=True):
    """Reference capture with the documented broadcasting: out[..., i, j] = int signal_i * filter_j.
    1-D inputs follow plain broadcasting (no pairing axes)."""
    filters = np.asarray(filters, dtype=float)
    signals = np.asarray(signals, dtype=float)
    d = filters.shape[-1]
    if trapz or x is not None:
        w = trapz_weights(d, x=x, dx=dx)
    else:
        w = np.ones(d) * float(dx)
    if filters.ndim > 1 and signals.ndim > 1:
        # (..., i, d) x (..., j, d) -> (..., i, j)
        return np.einsum("...id,...jd,d->...ij", signals, filters, w)
    return np.sum(filters * signals * w, axis=-1)
