"""
Reference models / oracles.  Nothing in this file imports dreye.
"""

import itertools
import math
from fractions import Fraction

import numpy as np

# ---------------------------------------------------------------------------
# O-TRAPZ


def trapz_exact(y, x=None, dx=None):
    """Exact trapezoid rule in rational arithmetic. y: sequence of numbers; x: ascending grid or None (dx)."""
    y = [Fraction(float(v)) for v in y]
    n = len(y)
    if x is None:
        dxs = [Fraction(float(dx))] * (n - 1)
    else:
        x = [Fraction(float(v)) for v in x]
        dxs = [x[k + 1] - x[k] for k in range(n - 1)]
    s = Fraction(0)
    for k in range(n - 1):
        s += (y[k] + y[k + 1]) * dxs[k] / 2
    return s


def rect_exact(y, dx):
    return sum(Fraction(float(v)) for v in y) * Fraction(float(dx))


def trapz_weights(d, x=None, dx=None):
    """weights w such that trapz(y) = sum_k w_k y_k (float)."""
    if x is None:
        xs = np.arange(d) * float(dx)
    else:
        xs = np.asarray(x, dtype=float)
    w = np.zeros(d)
    diffs = np.diff(xs)
    w[:-1] += diffs / 2
    w[1:] += diffs / 2
    return w


def capture_ref(filters, signals, x=None, dx=None, trapz=True):
    """Reference capture with the documented broadcasting: out[..., i, j] = int signal_i * filter_j.
    1-D inputs follow plain broadcasting (no pairing axes)."""
    filters = np.asarray(filters, dtype=float)
    signals = np.asarray(signals, dtype=float)
    d = filters.shape[-1]
    if trapz or x is not None:
        w = trapz_weights(d, x=x, dx=dx)
    else:
        w = np.ones(d) * float(dx)
    if filters.ndim > 1 and signals.ndim > 1:
        # (..., i, d) x (..., j, d) -> (..., i, j)
        return np.einsum("...id,...jd,d->...ij", signals, filters, w)
    return np.sum(filters * signals * w, axis=-1)


# ---------------------------------------------------------------------------
# model transform (own matmul):  relative capture = K (A x + baseline)


def transform(A, K=None, baseline=None):
    """returns (Abar, c0) with relative capture = Abar @ x + c0."""
    A = np.asarray(A, dtype=float)
    m = A.shape[0]
    b = np.zeros(m) if baseline is None else np.broadcast_to(np.asarray(baseline, dtype=float), (m,)).astype(float)
    if K is None:
        return A.copy(), b.copy()
    K = np.asarray(K, dtype=float)
    if K.ndim == 0:
        K = np.full(m, float(K))
    if K.ndim == 1:
        K = np.broadcast_to(K, (m,))
        return A * K[:, None], b * K
    return K @ A, K @ b


def bounds_arrays(lb, ub, n):
    lo = np.zeros(n) if lb is None else np.broadcast_to(np.asarray(lb, dtype=float), (n,)).astype(float)
    hi = np.full(n, np.inf) if ub is None else np.broadcast_to(np.asarray(ub, dtype=float), (n,)).astype(float)
    return lo, hi


# ---------------------------------------------------------------------------
# O-ZONO: H-representation of  c + { G y : |y_k| <= r_k }


def _null_vector(M, tol=1e-10):
    """unit vector spanning the null space of M (k x m, k = m-1) or None if the null space is not 1-D."""
    m = M.shape[1]
    if M.shape[0] == 0:
        return np.ones(1) if m == 1 else None
    u, s, vt = np.linalg.svd(M, full_matrices=True)
    rank = int(np.sum(s > tol * max(1.0, s[0])))
    if rank != m - 1:
        return None
    return vt[-1]


def zono_hrep(G, r):
    """facets of the zonotope { G y : |y_k| <= r_k } (centred).  Returns (N, h): unit normals (one per
    antipodal pair) and support values, or None when the zonotope is not full-dimensional."""
    G = np.asarray(G, dtype=float)
    m, n = G.shape
    act = [k for k in range(n) if r[k] > 0 and np.linalg.norm(G[:, k]) > 0]
    if np.linalg.matrix_rank(G[:, act]) < m if act else True:
        return None
    normals = []
    for S in itertools.combinations(act, m - 1):
        nu = _null_vector(G[:, list(S)].T)
        if nu is None:
            continue
        # canonical sign
        j = int(np.argmax(np.abs(nu) > 1e-12))
        if nu[j] < 0:
            nu = -nu
        if any(np.linalg.norm(nu - q) < 1e-9 for q in normals):
            continue
        normals.append(nu)
    N = np.array(normals)
    h = np.abs(N @ G) @ np.asarray(r, dtype=float)
    return N, h


def zono_margin(P, Abar, c0, lo, hi):
    """signed margin (>0 inside: exact distance to the boundary; <0 outside: a lower bound on the distance)
    of the rows of P w.r.t. the gamut c0 + {Abar x : lo<=x<=hi}.  None if the gamut is flat or unbounded."""
    if not np.all(np.isfinite(hi)):
        return None
    r = (hi - lo) / 2.0
    c = c0 + Abar @ ((hi + lo) / 2.0)
    hr = zono_hrep(Abar, r)
    if hr is None:
        return None
    N, h = hr
    D = (np.atleast_2d(P) - c) @ N.T
    return np.min(h[None, :] - np.abs(D), axis=1)


def zono_facet_points(Abar, c0, lo, hi):
    """for every facet (both antipodes): (centroid of the facet, outward unit normal)."""
    r = (hi - lo) / 2.0
    c = c0 + Abar @ ((hi + lo) / 2.0)
    hr = zono_hrep(Abar, r)
    if hr is None:
        return []
    N, h = hr
    out = []
    for nu in N:
        proj = nu @ Abar
        s = np.where(np.abs(proj) > 1e-10, np.sign(proj), 0.0)
        cen = c + Abar @ (s * r)
        out.append((cen, nu))
        out.append((2 * c - cen, -nu))
    return out


def cone_margin(P, Abar, apex):
    """signed margin w.r.t. the cone apex + {Abar y : y >= 0}; None if not full-dimensional or not pointed-representable."""
    G = np.asarray(Abar, dtype=float)
    m, n = G.shape
    if np.linalg.matrix_rank(G) < m:
        return None
    normals = []
    for S in itertools.combinations(range(n), m - 1):
        nu = _null_vector(G[:, list(S)].T)
        if nu is None:
            continue
        pr = nu @ G
        if np.all(pr >= -1e-10):
            pass
        elif np.all(pr <= 1e-10):
            nu = -nu
        else:
            continue
        if any(np.linalg.norm(nu - q) < 1e-9 for q in normals):
            continue
        normals.append(nu)
    if not normals:
        # the cone is the whole space
        return np.full(np.atleast_2d(P).shape[0], np.inf)
    N = np.array(normals)
    return np.min((np.atleast_2d(P) - apex) @ N.T, axis=1)


# ---------------------------------------------------------------------------
# O-BVLS: global optimum of min || w * (G x + c0 - b) ||_2 over lo <= x <= hi by active-set enumeration


def box_lsq(G, b, lo, hi, w=None, c0=None):
    """returns (value, x): the global minimum of ||w*(G x + c0 - b)|| over the box (hi may be +inf)
    by enumerating every pattern (at lo / at hi / free)."""
    G = np.asarray(G, dtype=float)
    m, n = G.shape
    b = np.asarray(b, dtype=float) - (0.0 if c0 is None else np.asarray(c0, dtype=float))
    if w is not None:
        w = np.asarray(w, dtype=float)
        G = G * w[:, None]
        b = b * w
    opts = []
    for k in range(n):
        o = [0, 2]  # at lo, free
        if np.isfinite(hi[k]):
            o.append(1)
        opts.append(o)
    best = (np.inf, None)
    scale = max(1.0, float(np.max(np.abs(hi[np.isfinite(hi)]))) if np.any(np.isfinite(hi)) else 1.0)
    tol = 1e-10 * scale
    for pat in itertools.product(*opts):
        pat = np.array(pat)
        x = np.where(pat == 0, lo, np.where(pat == 1, np.where(np.isfinite(hi), hi, 0.0), 0.0))
        free = np.flatnonzero(pat == 2)
        if free.size:
            if free.size > m and np.linalg.matrix_rank(G[:, free]) < free.size:
                # non-unique free part: minimum-norm solution is one candidate; others are covered by smaller free sets
                pass
            rhs = b - G @ x
            sol = np.linalg.lstsq(G[:, free], rhs, rcond=None)[0]
            if np.any(sol < lo[free] - tol) or np.any(sol > hi[free] + tol):
                continue
            x = x.copy()
            x[free] = np.clip(sol, lo[free], hi[free])
        val = float(np.linalg.norm(G @ x - b))
        if val < best[0]:
            best = (val, x)
    return best


def box_lsq_certified(G, b, lo, hi, w=None, c0=None):
    """(value, x, lower_bound): scipy BVLS candidate plus a rigorous lower bound from convexity
    f* >= f(x) + min_y grad f(x).(y - x) over the box (finite boxes only)."""
    from scipy.optimize import lsq_linear as sp_lsq

    G = np.asarray(G, dtype=float)
    b = np.asarray(b, dtype=float) - (0.0 if c0 is None else np.asarray(c0, dtype=float))
    if w is not None:
        w = np.asarray(w, dtype=float)
        G = G * w[:, None]
        b = b * w
    res = sp_lsq(G, b, bounds=(lo, hi), method="bvls", tol=1e-14, max_iter=10000)
    x = np.clip(res.x, lo, hi)
    rres = G @ x - b
    f = 0.5 * float(rres @ rres)
    g = G.T @ rres
    low = f + float(np.sum(np.minimum(g * (lo - x), g * (hi - x))))
    return float(np.linalg.norm(rres)), x, math.sqrt(max(0.0, 2 * low))


# ---------------------------------------------------------------------------
# O-POLY: vertices of { x : G x = b, lo <= x <= hi }


def poly_vertices(G, b, lo, hi, tol=1e-9):
    G = np.asarray(G, dtype=float)
    m, n = G.shape
    b = np.asarray(b, dtype=float)
    k = n - m
    V = []
    scale = max(1.0, float(np.max(np.abs(hi - lo))))
    if k < 0:
        return np.zeros((0, n))
    for fixed in itertools.combinations(range(n), k):
        fixed = list(fixed)
        rest = [j for j in range(n) if j not in fixed]
        M = G[:, rest]
        if abs(np.linalg.det(M)) <= 1e-12 * float(np.max(np.abs(M))) ** m:  # relative to the entries: the unit of capture must not matter
            continue
        for corner in itertools.product((0, 1), repeat=k):
            xf = np.where(np.array(corner) == 1, hi[fixed], lo[fixed]) if k else np.zeros(0)
            rhs = b - (G[:, fixed] @ xf if k else 0.0)
            xr = np.linalg.solve(M, rhs)
            if np.all(xr >= lo[rest] - tol * scale) and np.all(xr <= hi[rest] + tol * scale):
                x = np.zeros(n)
                x[fixed] = xf
                x[rest] = np.clip(xr, lo[rest], hi[rest])
                V.append(x)
    if not V:
        return np.zeros((0, n))
    V = np.array(V)
    # dedupe
    keep = []
    for v in V:
        if not any(np.max(np.abs(v - u)) < 1e-9 * scale for u in keep):
            keep.append(v)
    return np.array(keep)


def lp_extents(G, b, lo, hi):
    """cross-check: per-variable min/max over the polytope with HiGHS."""
    from scipy.optimize import linprog

    n = G.shape[1]
    mins, maxs = np.full(n, np.nan), np.full(n, np.nan)
    for k in range(n):
        c = np.zeros(n)
        c[k] = 1.0
        r1 = linprog(c, A_eq=G, b_eq=b, bounds=list(zip(lo, hi)), method="highs")
        r2 = linprog(-c, A_eq=G, b_eq=b, bounds=list(zip(lo, hi)), method="highs")
        if r1.status == 0:
            mins[k] = r1.x[k]
        if r2.status == 0:
            maxs[k] = r2.x[k]
    return mins, maxs


# ---------------------------------------------------------------------------
# O-HULL: brute-force H-representation of a point cloud


def hull_hrep(P, tol=1e-9):
    """(N, off) with N x + off <= 0 inside, for a full-dimensional cloud; None if flat."""
    P = np.asarray(P, dtype=float)
    npts, d = P.shape
    c = P.mean(0)
    Q = P - c
    scale = max(1e-300, float(np.max(np.abs(Q))))
    if np.linalg.matrix_rank(Q, tol=1e-9 * scale * max(Q.shape)) < d:
        return None
    normals, offs = [], []
    if d == 1:
        return np.array([[1.0], [-1.0]]), np.array([-P.max(), P.min()])
    for S in itertools.combinations(range(npts), d):
        S = list(S)
        M = Q[S[1:]] - Q[S[0]]
        nu = _null_vector(M)
        if nu is None:
            continue
        o = -(nu @ Q[S[0]])
        vals = Q @ nu + o
        if np.all(vals <= tol * scale):
            pass
        elif np.all(vals >= -tol * scale):
            nu, o = -nu, -o
        else:
            continue
        # the same facet found from another (possibly tiny, ill-conditioned) point subset: its normal agrees only to ~1e-8
        if any(np.linalg.norm(nu - q) < 1e-6 and abs(o - oo) < 1e-6 * scale for q, oo in zip(normals, offs)):
            continue
        normals.append(nu)
        offs.append(o)
    N = np.array(normals)
    off = np.array(offs) - N @ c
    return N, off


def hull_margin(P, B, tol=1e-9):
    """signed margin of rows of B w.r.t. conv(P) (positive inside = distance to boundary; negative outside =
    minus a lower bound on the distance).  None if conv(P) is flat."""
    hr = hull_hrep(P, tol)
    if hr is None:
        return None
    N, off = hr
    return np.min(-(np.atleast_2d(B) @ N.T + off), axis=1)


def hull_dist(P, b):
    """Euclidean distance from b to conv(P) by NNLS on the lifted system (sum of weights = 1 enforced with a large weight)
    followed by exact active-set polishing.  Tolerance-based; for small clouds."""
    from scipy.optimize import nnls

    P = np.asarray(P, dtype=float)
    b = np.asarray(b, dtype=float)
    scale = max(1.0, float(np.max(np.abs(P))), float(np.max(np.abs(b))))
    big = 1e4
    A = np.vstack([P.T / scale, big * np.ones((1, P.shape[0]))])
    rhs = np.concatenate([b / scale, [big]])
    lam, _ = nnls(A, rhs, maxiter=100 * P.shape[0])
    s = lam.sum()
    if s <= 0:
        return float(np.min(np.linalg.norm(P - b, axis=1)))
    lam = lam / s
    return float(np.linalg.norm(lam @ P - b))


def hull_volume(P):
    """volume of conv(P) for a full-dimensional cloud in R^d by a fan triangulation of the H-rep facets (d<=4),
    computed as sum over facets of (distance of interior point to facet) * facet volume / d, recursively."""
    P = np.asarray(P, dtype=float)
    d = P.shape[1]
    if d == 1:
        return float(P.max() - P.min())
    hr = hull_hrep(P)
    if hr is None:
        return 0.0
    N, off = hr
    c = P.mean(0)
    scale = max(1e-300, float(np.max(np.abs(P - c))))
    vol = 0.0
    for nu, o in zip(N, off):
        on = np.abs(P @ nu + o) <= 1e-8 * scale
        F = P[on]
        # orthonormal basis of the facet hyperplane
        u, s, vt = np.linalg.svd(np.eye(d) - np.outer(nu, nu))
        Bas = vt[: d - 1]
        Fp = (F - F[0]) @ Bas.T
        fv = hull_volume(Fp) if d - 1 > 1 else float(Fp.max() - Fp.min())
        dist = -(c @ nu + o)
        vol += fv * dist / d
    return vol


# ---------------------------------------------------------------------------
# O-GAP: certified lower bound for a convex differentiable f over a finite box


def convex_box_lower_bound(f, grad, x, lo, hi):
    """f* >= f(x) + min_{y in box} grad(x).(y - x): valid for any x in the box (the bound is only loose, never wrong)."""
    g = grad(x)
    return float(f(x) + np.sum(np.minimum(g * (lo - x), g * (hi - x))))


def poisson_nll(Abar, c0, b, w):
    """weighted Poisson negative log-likelihood (up to the constant log b!) of target b given total capture q = Abar x + c0."""

    def f(x):
        q = Abar @ x + c0
        if np.any(q <= 0):
            return np.inf
        return float(np.sum(w * (q - b * np.log(q))))

    def grad(x):
        q = Abar @ x + c0
        return Abar.T @ (w * (1.0 - b / q))

    return f, grad


def poisson_oracle(Abar, c0, b, w, lo, hi):
    """(candidate x, f(x), certified lower bound) by an independent optimiser (L-BFGS-B) + the convexity certificate."""
    from scipy.optimize import minimize

    f, grad = poisson_nll(Abar, c0, b, w)
    x0 = np.clip((lo + hi) / 2.0, lo, hi)
    # make sure the start has positive capture
    if not np.isfinite(f(x0)):
        x0 = hi.copy()
    best = None
    for start in (x0, lo + 0.9 * (hi - lo), lo + 0.1 * (hi - lo)):
        if not np.isfinite(f(start)):
            continue
        r = minimize(f, start, jac=grad, method="L-BFGS-B", bounds=list(zip(lo, hi)), options=dict(ftol=1e-15, gtol=1e-12, maxiter=2000))
        x = np.clip(r.x, lo, hi)
        if np.isfinite(f(x)) and (best is None or f(x) < f(best)):
            best = x
    if best is None:
        return None, np.inf, -np.inf
    return best, f(best), convex_box_lower_bound(f, grad, best, lo, hi)


# ---------------------------------------------------------------------------
# O-QCVX: excitation model, min over the box of max_i | e(b_i) - e(q_i(x)) |,  e(q) = q / (1 + q)


def excitation(q):
    q = np.asarray(q, dtype=float)
    return q / (1.0 + q)


def excitation_opt(Abar, c0, b, lo, hi, tol=1e-9):
    """t* to `tol` by bisection over LP feasibility (HiGHS)."""
    from scipy.optimize import linprog

    eb = excitation(b)
    n = Abar.shape[1]
    bounds = [(l, (None if not np.isfinite(h) else h)) for l, h in zip(lo, hi)]

    def feasible(t):
        A_ub, b_ub = [], []
        for i in range(len(b)):
            up = eb[i] + t
            if up < 1.0:
                qmax = up / (1.0 - up)
                A_ub.append(Abar[i])
                b_ub.append(qmax - c0[i])
            low = eb[i] - t
            if low > -1.0:  # e^-1 is increasing on (-1, 1)
                qmin = low / (1.0 - low)
                A_ub.append(-Abar[i])
                b_ub.append(-(qmin - c0[i]))
        if not A_ub:
            return True
        r = linprog(np.zeros(n), A_ub=np.array(A_ub), b_ub=np.array(b_ub), bounds=bounds, method="highs")
        return r.status == 0

    lo_t, hi_t = 0.0, 1.0
    if feasible(0.0):
        return 0.0
    while hi_t - lo_t > tol:
        mid = 0.5 * (lo_t + hi_t)
        if feasible(mid):
            hi_t = mid
        else:
            lo_t = mid
    return hi_t


# ---------------------------------------------------------------------------
# convex minimisation over a polytope given by its vertex set (small): candidate + certificate


def min_over_hull(f, grad, V):
    """minimise convex differentiable f over conv(V) (rows of V).  Returns (x, f(x), lower bound).
    x is a feasible candidate (so f(x) is an upper bound of the optimum), lower bound from convexity."""
    from scipy.optimize import minimize

    V = np.asarray(V, dtype=float)
    k = len(V)
    if k == 1:
        x = V[0]
        return x, float(f(x)), float(f(x))

    def fl(lam):
        return f(lam @ V)

    def gl(lam):
        return V @ grad(lam @ V)

    best = None
    starts = [np.full(k, 1.0 / k)] + [np.eye(k)[i] * 0.9 + 0.1 / k for i in range(min(k, 3))]
    for lam0 in starts:
        try:
            r = minimize(fl, lam0, jac=gl, method="SLSQP", bounds=[(0.0, 1.0)] * k, constraints=[dict(type="eq", fun=lambda l: np.sum(l) - 1.0, jac=lambda l: np.ones(k))],
                         options=dict(ftol=1e-15, maxiter=500))
        except Exception:  # noqa
            continue
        lam = np.clip(r.x, 0, None)
        if lam.sum() <= 0:
            continue
        lam = lam / lam.sum()
        x = lam @ V
        if best is None or f(x) < f(best):
            best = x
    # vertices themselves are candidates as well
    for v in V:
        if best is None or f(v) < f(best):
            best = v
    g = grad(best)
    low = float(f(best) + np.min((V - best) @ g))
    return best, float(f(best)), low


def box_lsq_bounds(G, b, lo, hi, w=None, c0=None, max_enum=6):
    """(upper, x, lower): `upper` = residual of a feasible point x (an upper bound of the optimum, exact for n <= max_enum),
    `lower` = a rigorous lower bound of the optimum (equal to `upper` when enumerated; 0 when no certificate is available).
    Use `upper` to show that a returned fit is NOT optimal, `lower` to show that a target is NOT reproducible."""
    n = np.asarray(G).shape[1]
    if n <= max_enum:
        v, x = box_lsq(G, b, lo, hi, w=w, c0=c0)
        return v, x, v
    if np.all(np.isfinite(hi)):
        return box_lsq_certified(G, b, lo, hi, w=w, c0=c0)
    # unbounded box with many sources: bounded surrogate for the candidate (feasible for the original problem), no certificate
    hi2 = np.where(np.isfinite(hi), hi, lo + 1e3)
    v, x, _ = box_lsq_certified(G, b, lo, hi2, w=w, c0=c0)
    return v, x, 0.0
