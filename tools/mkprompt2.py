#!/venv/bin/python
"""second-wave prompt: same brief + the list of ideas already tried (from the sub-agents' own summaries)"""
import json, sys, glob, os
pid, wt, out = sys.argv[1:4]
props = {json.loads(l)["id"]: json.loads(l) for l in open("/verif/properties.jsonl")}
p = props[pid]
text = "Title: %s\nStatement: %s\nQuantified over: %s\nCode the property is anchored in: %s" % (
    p["title"], p["statement"], p["quantifier"]["text"], ", ".join(p["anchors"]["files"]))
tried = []
for d in sorted(glob.glob("/verif/seeded/%s-*" % pid)):
    m = json.load(open(d + "/meta.json"))
    tried.append("   - " + (m.get("summary", "") or os.path.basename(d))[:300].replace("\n", " "))
t = open("/verif/tools/agent_prompt.txt").read()
t = t.replace("{WT}", wt).replace("{PID}", pid).replace("{TEXT}", text).replace("{OUT}", out)
t += "\nALREADY TRIED by others (do something DIFFERENT - another function, another clause of the property, another kind of slip):\n" + "\n".join(tried) + "\n"
t += "\nThe file dreye/api/_verif.py and the `_verif.record(...)` lines are inert instrumentation - leave them alone.\n"
print(t)
