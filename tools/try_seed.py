#!/venv/bin/python
"""tools/try_seed.py <seed-dir> <Cxx> [<Cyy> ...]
Evaluate a seeded change on a scratch copy of /repo's working tree (outside /repo and /verif): apply patch.diff, run the
repository tests, the demo and the named quick checks against the copy (DREYE_VERIF_REPO), delete the copy; then run the
demo against the unchanged /repo.  (Equivalent to `git -C /repo apply` + checks + `git checkout -- .`, but safe to run
while other jobs use /repo.)"""
import json, os, shutil, subprocess, sys, tempfile, time
d = os.path.abspath(sys.argv[1])
checks = sys.argv[2:]
patch = os.path.join(d, "patch.diff")
def sh(cmd, **kw):
    return subprocess.run(cmd, shell=True, capture_output=True, text=True, **kw)
r = sh("git -C /repo apply --check %s" % patch)
if r.returncode:
    print("PATCH DOES NOT APPLY", r.stderr); sys.exit(2)
res = {"seed": d}
c = tempfile.mkdtemp(prefix="dreye-seed-", dir="/tmp")
try:
    sh("cd /repo && git ls-files -z dreye tests setup.py | xargs -0 tar cf - | tar xf - -C %s" % c)
    r = sh("cd %s && git apply %s" % (c, patch))
    assert r.returncode == 0, r.stderr
    t = sh("cd %s && /venv/bin/python -m pytest -q -p no:cacheprovider --timeout=900 2>&1 | tail -1" % c)
    res["tests_with_patch"] = t.stdout.strip()
    dm = sh("cd /tmp && /venv/bin/python %s/demo.py" % d, env=dict(os.environ, PYTHONPATH=c))
    res["demo_with_patch_rc"] = dm.returncode
    env = dict(os.environ, DREYE_VERIF_REPO=c, VERIF_EVIDENCE_DIR=os.path.join(c, "_ev"), VERIF_REPLAY_DIR=os.path.join(c, "_rp"))
    for ck in checks:
        t0 = time.time()
        r = sh("cd /verif && ./check %s --tier quick" % ck, env=env)
        nv = sum(1 for l in r.stdout.splitlines() if l.startswith("VIOLATION"))
        first = [l for l in r.stderr.splitlines() if l.strip().startswith("class clause")][:3]
        res["check_" + ck] = dict(rc=r.returncode, violations=nv, wall=round(time.time() - t0, 1), first=first)
finally:
    shutil.rmtree(c, ignore_errors=True)
dm = sh("cd /tmp && /venv/bin/python %s/demo.py" % d, env=dict(os.environ, PYTHONPATH="/repo"))
res["demo_clean_rc"] = dm.returncode
print(json.dumps(res, indent=1))
