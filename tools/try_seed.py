#!/venv/bin/python
"""tools/try_seed.py <seed-dir> <Cxx> [<Cyy> ...]   apply patch.diff to /repo, run repo tests + demo + the named quick checks, revert."""
import json, os, subprocess, sys, time
d = os.path.abspath(sys.argv[1])
checks = sys.argv[2:]
patch = os.path.join(d, "patch.diff")
def sh(cmd, **kw):
    return subprocess.run(cmd, shell=True, capture_output=True, text=True, **kw)
st = sh("git -C /repo status --porcelain --untracked-files=no")
assert st.stdout.strip() == "", "repo not clean: " + st.stdout
r = sh("git -C /repo apply --check %s" % patch)
if r.returncode:
    print("PATCH DOES NOT APPLY", r.stderr); sys.exit(2)
res = {"seed": d}
env = dict(os.environ, PYTHONPATH="/repo")
try:
    sh("git -C /repo apply %s" % patch)
    t = sh("cd /repo && /venv/bin/python -m pytest -q -p no:cacheprovider --timeout=900 2>&1 | tail -1")
    res["tests_with_patch"] = t.stdout.strip()
    dm = sh("cd /tmp && /venv/bin/python %s/demo.py" % d, env=env)
    res["demo_with_patch_rc"] = dm.returncode
    for c in checks:
        t0 = time.time()
        r = sh("cd /verif && ./check %s --tier quick" % c)
        nv = sum(1 for l in r.stdout.splitlines() if l.startswith("VIOLATION"))
        first = [l for l in r.stderr.splitlines() if l.strip().startswith("class clause")][:3]
        res["check_" + c] = dict(rc=r.returncode, violations=nv, wall=round(time.time() - t0, 1), first=first)
finally:
    sh("git -C /repo checkout -- .")
dm = sh("cd /tmp && /venv/bin/python %s/demo.py" % d, env=env)
res["demo_clean_rc"] = dm.returncode
print(json.dumps(res, indent=1))
