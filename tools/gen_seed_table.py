#!/usr/bin/env python3
"""rewrite the table of stored seeds in DESIGN.md (between the SEEDTABLE markers) from /verif/seeded/*/meta.json"""
import json, glob, os, re
rows = []
for d in sorted(glob.glob('/verif/seeded/C*')):
    m = json.load(open(d + '/meta.json'))
    rows.append('| %s | %s | %s |' % (os.path.basename(d), (m.get('summary', '') or '')[:110].replace('\n', ' ').replace('|', '/'), ','.join(m.get('detected_by') or []) or '**none**'))
p = '/verif/DESIGN.md'
s = open(p).read()
head = '| id | change (sub-agent\'s summary, truncated) | detected by |\n|---|---|---|\n'
block = '<!-- SEEDTABLE -->\n' + head + '\n'.join(rows) + '\n<!-- /SEEDTABLE -->'
if '<!-- SEEDTABLE -->' in s:
    s = re.sub(r'<!-- SEEDTABLE -->.*?<!-- /SEEDTABLE -->', lambda _: block, s, flags=re.S)
else:
    i = s.index(head)
    j = s.index('\n\n', i)
    s = s[:i] + block + s[j:]
open(p, 'w').write(s)
print(len(rows), 'seeds;', sum(1 for r in rows if '**none**' in r), 'undetected')
