#!/venv/bin/python
"""tools/try_patch.py <patch.diff> <Cxx> [...] : apply a patch to /repo, run the repo tests and the named quick checks, revert.
Used for behaviour-preserving refactorings (every check must stay silent)."""
import json, os, subprocess, sys, time
patch = os.path.abspath(sys.argv[1]); checks = sys.argv[2:]
def sh(cmd, **kw): return subprocess.run(cmd, shell=True, capture_output=True, text=True, **kw)
assert sh("git -C /repo status --porcelain --untracked-files=no").stdout.strip() == "", "repo not clean"
if sh("git -C /repo apply --check %s" % patch).returncode:
    print("PATCH DOES NOT APPLY"); sys.exit(2)
res = {}
try:
    sh("git -C /repo apply %s" % patch)
    res["tests"] = sh("cd /repo && /venv/bin/python -m pytest -q -p no:cacheprovider --timeout=900 2>&1 | tail -1").stdout.strip()
    env = dict(os.environ, VERIF_EVIDENCE_DIR="/tmp/_ev_patch", VERIF_REPLAY_DIR="/tmp/_rp_patch")
    for c in checks:
        t0 = time.time()
        r = sh("cd /verif && ./check %s --tier quick" % c, env=env)
        nv = sum(1 for l in r.stdout.splitlines() if l.startswith("VIOLATION"))
        first = [l.strip()[:300] for l in r.stderr.splitlines() if l.strip().startswith("class clause") or "INTERNAL" in l][:3]
        res[c] = dict(rc=r.returncode, violations=nv, wall=round(time.time() - t0, 1), first=first)
finally:
    sh("git -C /repo checkout -- .")
    sh("rm -rf /tmp/_ev_patch /tmp/_rp_patch")
print(json.dumps(res, indent=1))
