#!/venv/bin/python
"""tools/keep_seed.py <seed-dir> <id> <Cxx> [more checks]  : evaluate (try_seed) and store under /verif/seeded/<id>/ with meta.json"""
import json, os, shutil, subprocess, sys
src, sid = sys.argv[1], sys.argv[2]
checks = sys.argv[3:]
r = subprocess.run(["/verif/tools/try_seed.py", src] + checks, capture_output=True, text=True)
print(r.stdout[-3000:], r.stderr[-2000:])
if r.returncode:
    sys.exit(r.returncode)
res = json.loads(r.stdout[r.stdout.index("{"):])
dst = "/verif/seeded/" + sid
os.makedirs(dst, exist_ok=True)
if os.path.abspath(src) != os.path.abspath(dst):
    shutil.copy(os.path.join(src, "patch.diff"), dst)
    shutil.copy(os.path.join(src, "demo.py"), dst)
meta = {}
mp = os.path.join(src, "meta.json")
if os.path.exists(mp):
    try:
        meta = json.load(open(mp))
    except Exception:
        meta = {"raw": open(mp).read()}
meta["confirmed"] = dict(tests_with_patch=res["tests_with_patch"], demo_with_patch_rc=res["demo_with_patch_rc"], demo_clean_rc=res["demo_clean_rc"],
                         repo_head=subprocess.run("git -C /repo log --format=%h -1", shell=True, capture_output=True, text=True).stdout.strip(),
                         how="scratch copy of /repo's working tree + git apply patch.diff; pytest (repo baseline command) on the copy; PYTHONPATH=<copy> python demo.py; DREYE_VERIF_REPO=<copy> ./check <id> --tier quick; copy deleted; demo re-run against /repo")
old_checks = meta.get("checks", {}) if os.path.abspath(src) == os.path.abspath(dst) else {}
meta["checks"] = dict(old_checks, **{k[6:]: v for k, v in res.items() if k.startswith("check_")})
meta["detected_by"] = [k for k, v in meta["checks"].items() if v["rc"] == 1 and v["violations"] > 0]
json.dump(meta, open(os.path.join(dst, "meta.json"), "w"), indent=1)
print("kept", dst, "detected_by", meta["detected_by"])
