#!/venv/bin/python
import json, sys
pid, wt, out = sys.argv[1:4]
props = {json.loads(l)["id"]: json.loads(l) for l in open("/verif/properties.jsonl")}
p = props[pid]
text = "Title: %s\nStatement: %s\nQuantified over: %s\nCode the property is anchored in: %s" % (
    p["title"], p["statement"], p["quantifier"]["text"], ", ".join(p["anchors"]["files"]))
t = open("/verif/tools/agent_prompt.txt").read()
print(t.replace("{WT}", wt).replace("{PID}", pid).replace("{TEXT}", text).replace("{OUT}", out))
