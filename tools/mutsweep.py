#!/venv/bin/python
"""tools/mutsweep.py [index ...] : run the hand-written textual mutants below against their checks (scratch copies, never /repo).
Prints one line per mutant: DETECTED / MISSED (+ which check) ."""
import os, shutil, subprocess, sys, tempfile, json

M = [
 # (checks, file, old, new)
 ("C01", "dreye/api/capture.py", "filters = filters[..., None, :, :]\n        signals = signals[..., :, None, :]", "filters = filters[..., :, None, :]\n        signals = signals[..., None, :, :]"),
 ("C01", "dreye/api/capture.py", "return np.sum(filters * signals * domain, axis=-1)", "return np.sum(filters * signals, axis=-1) * abs(domain)"),
 ("C01,C02", "dreye/api/capture.py", "return _trapz(filters * signals, x=np.asarray(domain), axis=-1)", "return _trapz(filters * signals, dx=np.mean(np.diff(np.asarray(domain))), axis=-1)"),
 ("C02", "dreye/api/estimator.py", "        B = B + self.baseline\n        if self.K.ndim <= 1:\n            B = B * self.K", "        if self.K.ndim <= 1:\n            B = B * self.K + self.baseline"),
 ("C02", "dreye/api/estimator.py", "            self.K = self.K + 1 / qb\n        else:\n            self.K = 1 / qb\n    \n    def register_baseline", "            self.K = self.K + 1 / qb\n        else:\n            self.K = 1 / self.capture(background, domain=domain)\n    \n    def register_baseline"),
 ("C03", "dreye/api/convex.py", "    X = all_combinations_of_bounds(lb, ub)\n    return predict_values(X, A, baseline)", "    X = all_combinations_of_bounds(np.zeros_like(lb), ub)\n    return predict_values(X, A, baseline)"),
 ("C03", "dreye/api/convex.py", "    P_ = P - offset\n    B_ = B - offset\n\n    return in_hull(P_, B_, bounded=bounded)", "    P_ = P - offset\n    B_ = B\n\n    return in_hull(P_, B_, bounded=bounded)"),
 ("C03,C12", "dreye/api/estimator.py", "            P = self._get_P_from_A(relative=relative, bounded=True, remove_zero=True)\n            P = barycentric_dim_reduction(P)\n            B = barycentric_dim_reduction(B)", "            P = self._get_P_from_A(relative=True, bounded=True, remove_zero=True)\n            P = barycentric_dim_reduction(P)\n            B = barycentric_dim_reduction(B)"),
 ("C04", "dreye/api/optimize/lsq_linear.py", "        b_.value = b * w  # ensures that objective is dpp compliant\n\n        _solve_checked", "        b_.value = b  # ensures that objective is dpp compliant\n\n        _solve_checked"),
 ("C04", "dreye/api/utils.py", "    return X @ A.T + baseline", "    return X @ A.T"),
 ("C04", "dreye/api/optimize/lsq_linear.py", "    if np.all(np.isfinite(ub)):\n        constraints.append(x_ <= ub_)\n\n    return A_, x_, w_, b_, constraints", "    if np.all(np.isfinite(ub)):\n        constraints.append(x_ <= ub_ + lb_)\n\n    return A_, x_, w_, b_, constraints"),
 ("C05", "dreye/api/optimize/lsq_linear.py", "        if ((idx + 1) * batch_size) > X.shape[0]:\n            X[idx * batch_size :] = x[:last_batch_size]\n        else:\n            X[idx * batch_size : (idx + 1) * batch_size] = x\n        _verif.record(\n            \"solve\", where=\"_solve_problem\"", "        if ((idx + 1) * batch_size) > X.shape[0]:\n            X[idx * batch_size :] = x[-last_batch_size:]\n        else:\n            X[idx * batch_size : (idx + 1) * batch_size] = x\n        _verif.record(\n            \"solve\", where=\"_solve_problem\""),
 ("C05", "dreye/api/optimize/parallel.py", "                arr[-last_batch_size:].ravel(),\n                np.zeros((pad_size,) + arr.shape[1:]).ravel(),", "                arr[-last_batch_size:].ravel(),\n                arr[:pad_size].ravel(),"),
 ("C05", "dreye/api/optimize/parallel.py", "range(n_samples // batch_size)\n        )\n\n        batched_arrays", "range(max(n_samples // batch_size - 0, 0))\n        )\n        iterator = list(iterator)[::-1] if len(list(iterator)) > 2 else iterator\n\n        batched_arrays"),
 ("C06", "dreye/api/convex.py", "    omat = np.array(list(product([0, 1], repeat=n_diff)))", "    omat = np.array(list(product([0, 0], repeat=n_diff)))"),
 ("C06", "dreye/api/convex.py", "        mins = np.minimum(mins, _mins)\n        maxs = np.maximum(maxs, _maxs)", "        mins = np.minimum(mins, _maxs)\n        maxs = np.maximum(maxs, _maxs)"),
 ("C06", "dreye/api/convex.py", "        X = lsq_linear(A, B, lb=lb, ub=ub)\n", "        X = lsq_linear(A, B, lb=lb, ub=None)\n"),
 ("C07", "dreye/api/optimize/lsq_linear.py", "                cp.multiply(b_, cp.log(A_ @ x_ + baseline_))", "                cp.multiply(b_, cp.log(A_ @ x_))"),
 ("C07", "dreye/api/optimize/lsq_linear.py", "    objective = cp.Minimize(cp.max(cp.abs(num) / denom))", "    objective = cp.Minimize(cp.sum(cp.abs(num) / denom))"),
 ("C07", "dreye/api/optimize/lsq_linear.py", "        A, B, lb, ub, W, K, baseline, batch_size, subtract=(model != \"poisson\")", "        A, B, lb, ub, W, K, baseline, batch_size, subtract=True"),
 ("C08", "dreye/api/optimize/lsq_linear.py", "            return cp.Minimize(cp.norm2(x_))", "            return cp.Minimize(cp.norm1(x_))"),
 ("C08", "dreye/api/optimize/lsq_linear.py", "        return cp.Minimize(cp.sum_squares(x_ - underdetermined_opt))", "        return cp.Minimize(cp.sum_squares(x_[:-1] - underdetermined_opt[:-1]))"),
 ("C09", "dreye/api/optimize/lsq_linear.py", "        norm = l2norm((W * B0 - W * B), axis=-1)", "        norm = l2norm((B0 - B), axis=-1) * 0"),
 ("C09", "dreye/api/optimize/lsq_linear.py", "                    <= (l1_ + l1_eps),\n                    cp.sum(cp.reshape(x_, (A.shape[1], batch_size)), axis=0)\n                    >= (l1_ - l1_eps),", "                    <= (l1_ + l1_eps),\n                    cp.sum(cp.reshape(x_, (A.shape[1], batch_size)), axis=0)\n                    >= (l1_ - 10 * l1_eps - 0.2),"),
 ("C09", "dreye/api/estimator.py", "                self.Epsilon = self.uncertainty_capture(sources, domain=domain).T", "                self.Epsilon = self.uncertainty_capture(sources, domain=domain).T ** 0.5"),
 ("C10", "dreye/api/optimize/lsq_linear.py", "    int_actual = cp.multiply(Bsum, scales[0])", "    int_actual = cp.multiply(Bsum, scales[1])"),
 ("C10", "dreye/api/optimize/lsq_linear.py", "        objective = cp.Maximize(cp.sum(cp.multiply(scale_w, scales)))", "        objective = cp.Maximize(cp.sum(scales))"),
 ("C11", "dreye/api/optimize/lsq_linear.py", "        Pvar >= lbp,\n        Pvar <= ubp,\n    ]\n\n    # x constraints", "        Pvar >= lbp,\n        Pvar <= 1,\n    ]\n\n    # x constraints"),
 ("C11", "dreye/api/optimize/lsq_linear.py", "        return X, P, (P @ X @ A.T + baseline)", "        return X, P, (Ppar.value @ X @ A.T + baseline)"),
 ("C12", "dreye/api/estimator.py", "        amax = np.min(np.max(Amax, axis=-1))", "        amax = np.max(np.min(Amax, axis=-1))"),
 ("C12", "dreye/api/estimator.py", "            alphas = alpha_for_B_with_P(baryB, hull.equations)\n            alpha = np.nanmin(alphas)", "            alphas = alpha_for_B_with_P(baryB, hull.equations)\n            alpha = np.nanmedian(alphas)"),
 ("C12", "dreye/api/estimator.py", "        B = cartesian_to_barycentric(baryB_scaled, L1)\n        B[zero_rows] = 0", "        B = cartesian_to_barycentric(baryB_scaled, L1.mean())\n        B[zero_rows] = 0"),
 ("C13", "dreye/api/sampling.py", "    return np.einsum(\"ijk, ij -> ik\", deln[sample_indices], probs)", "    return np.einsum(\"ijk, ij -> ik\", deln[sample_indices], probs ** 1.5 / (probs ** 1.5).sum(1, keepdims=True))"),
 ("C13", "dreye/api/estimator.py", "            return cartesian_to_barycentric(X, L1=l1)", "            return cartesian_to_barycentric(X, L1=l1) * (1 + 1e-4)"),
 ("C14", "dreye/api/estimator.py", "        self.baseline = np.atleast_1d(baseline)", "        self.baseline = np.atleast_1d(baseline)\n        self.K = self.K * 1.0 if np.all(self.baseline == 0) else self.K"),
 ("C14", "dreye/api/estimator.py", "        self.target_B = np.asarray(B)\n        self.B = self.target_B.copy()", "        self.target_B = np.asarray(B)\n        self.B = self.target_B"),
 ("C16", "dreye/api/spherical.py", "        np.where(X[..., -1] >= 0, last_angle, 2 * np.pi - last_angle),", "        np.where(X[..., -1] > 0, last_angle, 2 * np.pi - last_angle),"),
 ("C16", "dreye/api/barycentric.py", "        X = X + (np.ones(n) / n) @ A", "        X = X - (np.ones(n) / n) @ A"),
 ("C17", "dreye/api/project.py", "    alpha[alpha <= 0] = np.nan", "    alpha[alpha < 1e-3] = np.nan"),
 ("C17", "dreye/api/project.py", "    threshbool = psum <= c", "    threshbool = psum < c"),
 ("C18", "dreye/api/metrics.py", "        max1, max2 = proj.max(0), (-proj).max(0)  # max across samples", "        max1, max2 = proj.max(0), proj.max(0)  # max across samples"),
 ("C18", "dreye/api/metrics.py", "    if np.allclose(X, X[0]):\n        return 0.0", "    if np.allclose(X, X[0], atol=0.6):\n        return 0.0"),
 ("C19", "dreye/api/domain.py", "        lemin = np.maximum(lemin, np.min(domain))", "        lemin = np.maximum(lemin, domain[0])"),
 ("C19", "dreye/api/estimator.py", "        domain, [filters, signals] = equalize_domains([self.domain, domain], [filters, signals]) ", "        domain, [signals, filters] = equalize_domains([domain, self.domain], [signals, filters]) \n        domain = self.domain if len(domain) == len(self.domain) else domain"),
 ("C20", "dreye/api/units/convert.py", "    irradiance = (\n        photonflux * (ureg.planck_constant * ureg.speed_of_light * ureg.N_A)\n    ) / wavelengths", "    irradiance = (\n        photonflux * (ureg.planck_constant * ureg.speed_of_light * ureg.N_A)\n    ) / wavelengths.to('m') * ureg('m') / ureg('nm')"),
 ("C15,C03", "dreye/api/convex.py", "    scale = np.maximum(1.0, np.maximum(np.max(np.abs(A)), l2norm(B, axis=-1)))\n    in_hulls = norms <= 1e-8 * scale", "    in_hulls = norms <= 1e-6"),
]

def run(i):
    checks, rel, old, new = M[i]
    d = tempfile.mkdtemp(prefix="dreye-mut-", dir="/tmp")
    try:
        subprocess.run("cd /repo && tar cf - dreye tests setup.py | tar xf - -C %s" % d, shell=True, check=True)
        p = os.path.join(d, rel)
        s = open(p).read()
        if s.count(old) < 1:
            return "%02d PATTERN-NOT-FOUND %s" % (i, rel)
        open(p, "w").write(s.replace(old, new, 1))
        t = subprocess.run("cd %s && /venv/bin/python -m pytest -q -p no:cacheprovider --timeout=900 -x 2>&1 | tail -1" % d, shell=True, capture_output=True, text=True).stdout.strip()
        env = dict(os.environ, DREYE_VERIF_REPO=d, VERIF_EVIDENCE_DIR=os.path.join(d, "_ev"), VERIF_REPLAY_DIR=os.path.join(d, "_rp"))
        det = []
        for c in checks.split(","):
            r = subprocess.run("cd /verif && ./check %s --tier quick" % c, shell=True, capture_output=True, text=True, env=env)
            nv = sum(1 for l in r.stdout.splitlines() if l.startswith("VIOLATION"))
            det.append("%s:rc%d/%d" % (c, r.returncode, nv))
        verdict = "DETECTED" if any(":rc1/" in x and not x.endswith("/0") for x in det) else "MISSED"
        return "%02d %s %s | tests: %s | %s :: %s" % (i, verdict, " ".join(det), t[:40], rel.split("/")[-1], new[:70].replace("\n", " "))
    finally:
        shutil.rmtree(d, ignore_errors=True)

if __name__ == "__main__":
    idx = [int(a) for a in sys.argv[1:]] or range(len(M))
    for i in idx:
        print(run(i), flush=True)
