#!/venv/bin/python
"""tools/mutate.py <checks,comma-separated> <file relative to repo> <old> <new> [--tests]
Detection demonstration on a scratch copy of the working tree (outside /repo and /verif): apply a textual edit,
optionally run the repo tests on the copy, run the quick checks against the copy (DREYE_VERIF_REPO), delete the copy."""
import os, shutil, subprocess, sys, tempfile
checks, rel, old, new = sys.argv[1].split(","), sys.argv[2], sys.argv[3], sys.argv[4]
tests = "--tests" in sys.argv
d = tempfile.mkdtemp(prefix="dreye-mut-", dir="/tmp")
try:
    subprocess.run("cd /repo && tar cf - dreye tests setup.py | tar xf - -C %s" % d, shell=True, check=True)
    subprocess.run("find %s -name __pycache__ -prune -exec rm -rf {} +" % d, shell=True)
    p = os.path.join(d, rel)
    s = open(p).read()
    assert s.count(old) >= 1, "pattern not found"
    open(p, "w").write(s.replace(old, new, 1))
    if tests:
        r = subprocess.run("cd %s && /venv/bin/python -m pytest -q -p no:cacheprovider --timeout=900 2>&1 | tail -1" % d, shell=True, capture_output=True, text=True)
        print("repo tests on the mutant:", r.stdout.strip())
    env = dict(os.environ, DREYE_VERIF_REPO=d, VERIF_EVIDENCE_DIR=os.path.join(d, "_ev"), VERIF_REPLAY_DIR=os.path.join(d, "_rp"))
    for c in checks:
        r = subprocess.run("cd /verif && ./check %s --tier quick" % c, shell=True, capture_output=True, text=True, env=env)
        nv = sum(1 for l in r.stdout.splitlines() if l.startswith("VIOLATION"))
        cl = [l.strip()[:260] for l in r.stderr.splitlines() if l.strip().startswith("class clause")][:2]
        print("%s rc=%d violations=%d %s" % (c, r.returncode, nv, cl))
finally:
    shutil.rmtree(d, ignore_errors=True)
