#!/venv/bin/python
"""tools/try_refactor.py <dir-with-patch.diff> <Cxx> [...] : apply a behaviour-preserving patch to a scratch copy of /repo's
working tree (outside /repo and /verif), run the repository tests and the named quick checks against the copy, delete the copy.
Expected: every check rc=0, no VIOLATION line."""
import json, os, shutil, subprocess, sys, tempfile, time
d = os.path.abspath(sys.argv[1]); checks = sys.argv[2:]
patch = os.path.join(d, "patch.diff")
def sh(cmd, **kw):
    return subprocess.run(cmd, shell=True, capture_output=True, text=True, **kw)
r = sh("git -C /repo apply --check %s" % patch)
if r.returncode:
    print("PATCH DOES NOT APPLY", r.stderr); sys.exit(2)
res = {"patch": d}
c = tempfile.mkdtemp(prefix="dreye-ref-", dir="/tmp")
try:
    sh("cd /repo && git ls-files -z dreye tests setup.py | xargs -0 tar cf - | tar xf - -C %s" % c)
    assert sh("cd %s && git apply %s" % (c, patch)).returncode == 0
    res["tests"] = sh("cd %s && /venv/bin/python -m pytest -q -p no:cacheprovider --timeout=900 2>&1 | tail -1" % c).stdout.strip()
    env = dict(os.environ, DREYE_VERIF_REPO=c, VERIF_EVIDENCE_DIR=os.path.join(c, "_ev"), VERIF_REPLAY_DIR=os.path.join(c, "_rp"))
    for ck in checks:
        t0 = time.time()
        r = sh("cd /verif && ./check %s --tier quick" % ck, env=env)
        nv = sum(1 for l in r.stdout.splitlines() if l.startswith("VIOLATION"))
        res[ck] = dict(rc=r.returncode, violations=nv, wall=round(time.time() - t0, 1), first=[l for l in r.stderr.splitlines() if l.strip().startswith("class clause")][:3])
finally:
    shutil.rmtree(c, ignore_errors=True)
print(json.dumps(res, indent=1))
sys.exit(0 if all(isinstance(v, str) or v["rc"] == 0 for k, v in res.items() if k not in ("patch",)) else 1)
