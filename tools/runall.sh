#!/bin/bash
# tools/runall.sh [tier] [checks...] : run the registered checks, print rc / wall / violations per check
HERE="$(cd "$(dirname "${BASH_SOURCE[0]}")/.." && pwd)"
tier=${1:-quick}; shift
checks=${@:-$(ls "$HERE"/checks/c*.py | sed 's/.*\/c\([0-9]*\)\.py/C\1/')}
for c in $checks; do
  s=$(date +%s.%N)
  out=$(cd "$HERE" && ./check $c --tier $tier 2>&1); rc=$?
  e=$(date +%s.%N)
  nv=$(echo "$out" | grep -c '^VIOLATION'); kf=$(echo "$out" | grep -c '^KNOWN-FINDING')
  printf "%s rc=%d viol=%d known=%d wall=%.0fs\n" $c $rc $nv $kf $(echo "$e - $s" | bc)
done
