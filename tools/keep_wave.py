#!/venv/bin/python
"""tools/keep_wave.py <suffix> [extra checks as Cxx=Cyy,Czz ...] : evaluate every /tmp/seed-cNN<suffix>/m{1,2} with the property's own
check (plus extras) and store it under /verif/seeded/<Cnn>-m<k>-<slug> (k = next free number, slug from the sub-agent's summary)."""
import glob, json, os, re, subprocess, sys
suffix = sys.argv[1]
extra = dict(a.split("=") for a in sys.argv[2:])
STOP = set("the a an of in to for and or is are was now its it with by on from that this as at be instead into dreye api py".split())
for d in sorted(glob.glob("/tmp/seed-c[0-9][0-9]%s/m[12]" % suffix)):
    pid = "C" + re.search(r"seed-c(\d\d)", d).group(1)
    try:
        meta = json.load(open(d + "/meta.json"))
        summ = meta.get("summary", "")
    except Exception:
        summ = ""
    words = [w for w in re.findall(r"[A-Za-z_]{3,}", summ.lower()) if w not in STOP][:5]
    nums = [int(m.group(1)) for x in glob.glob("/verif/seeded/%s-m*" % pid) for m in [re.search(r"-m(\d+)-", x)] if m]
    k = max(nums + [0]) + 1
    sid = "%s-m%d-%s" % (pid, k, "-".join(words)[:48].strip("-") or "change")
    checks = [pid] + [c for c in extra.get(pid, "").split(",") if c]
    r = subprocess.run(["/venv/bin/python", "/verif/tools/keep_seed.py", d, sid] + checks, capture_output=True, text=True)
    print((r.stdout.strip().splitlines() or ["?"])[-1], flush=True)
