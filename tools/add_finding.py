#!/venv/bin/python
"""tools/add_finding.py ID status property commit-or-'-' 'what' [clause] [where-json]   (developer tool; never run by checks)"""
import json, sys
p = '/verif/known_findings.json'
d = json.load(open(p))
fid, status, prop, commit, what = sys.argv[1:6]
clause = sys.argv[6] if len(sys.argv) > 6 and sys.argv[6] != '-' else None
where = json.loads(sys.argv[7]) if len(sys.argv) > 7 else {}
e = {"id": fid, "status": status, "property": prop}
if status == 'fixed':
    e["commit"] = commit
    e["what"] = "fixed: property=%s %s %s" % (prop, commit, what)
else:
    if clause: e["clause"] = clause
    e["where"] = where
    e["what"] = what
d["findings"] = [f for f in d["findings"] if f["id"] != fid] + [e]
json.dump(d, open(p, 'w'), indent=1)
print(e)
