#!/venv/bin/python
"""Regenerate MANIFEST.json from the table below + the check modules present."""
import json, os, sys
HERE = os.path.dirname(os.path.dirname(os.path.abspath(__file__)))
sys.path.insert(0, HERE)

META = {
 "C01": ("exhaustive basis-pair table + bilinearity over all shape pairs x domains", "every broadcastable shape pair x every ascending sub-grid x every (one-hot filter, one-hot signal) pair is executed on calculate_capture / integral / ReceptorEstimator.capture and compared with an exact trapezoid oracle; capture is bilinear, so its basis table decides it", "6.C01",
         "small-scope: domain length <= 6, rank <= 3; bilinearity is itself checked only on basis pairs with coefficients {-1,1/2,2} and one dense pair per configuration; numpy einsum inside the oracle"),
}

def main():
    checks = []
    na = []
    props = [json.loads(l) for l in open(os.path.join(HERE, "properties.jsonl"))]
    hooks_commits = []
    hc = os.path.join(HERE, "hooks_commits.txt")
    if os.path.exists(hc):
        hooks_commits = [l.strip() for l in open(hc) if l.strip()]
    for p in props:
        pid = p["id"]
        mod = os.path.join(HERE, "checks", pid.lower() + ".py")
        if os.path.exists(mod):
            import importlib
            M = importlib.import_module("checks." + pid.lower())
            if pid in META:
                tech, text, ref, note = META[pid]
            else:
                tech = getattr(M, "TECHNIQUE", "exhaustive enumeration of the bounded space described in RULE")
                text = getattr(M, "LEVEL_TEXT", M.RULE)
                ref = "6." + pid
                note = getattr(M, "LEVEL_NOTE", "; ".join(getattr(M, "ASSUMPTIONS", [])))
            checks.append({
                "property_id": pid,
                "quick_cmd": "./check %s --tier quick" % pid,
                "thorough_cmd": "./check %s --tier thorough" % pid,
                "evidence_file": "/verif/evidence/%s.json" % pid,
                "replay_cmd_template": "./check %s --replay {path}" % pid,
                "engine": "mc-kernel",
                "level_claimed": {"category": "model_checking", "text": text, "design_ref": ref},
                "level_note": note,
                "technique": "bounded-exhaustive explicit enumeration on the implementation: " + tech,
            })
        else:
            na.append({"property_id": pid, "reason": "check not built yet (work in progress, see DESIGN.md section 6 for the planned exhaustive check); model checking is applicable"})
    man = {
        "version": 1,
        "setup_cmd": "cd /verif && /venv/bin/python -c 'import numpy, scipy, cvxpy' && chmod +x check",
        "hooks": {
            "guard": "DREYE_VERIF",
            "enable": "checks export DREYE_VERIF=1 and import dreye from /repo's working tree (pure Python, nothing to build); dreye/api/_verif.py records events only when the variable is set",
            "baseline_off_cmd": "cd /repo && env -u DREYE_VERIF /venv/bin/python -m pytest -ra -q -p no:cacheprovider --timeout=900 --continue-on-collection-errors",
            "source_commits": hooks_commits,
            "add_only": True,
        },
        "engines": [{"name": "mc-kernel", "path": "/verif/mc/kernel.py", "serves_properties": [c["property_id"] for c in checks],
                     "kind_free_text": "hand-written explicit enumeration / BFS explorer driving the real dreye API in 16 long-lived worker processes, with independent reference models (mc/oracles.py)"}],
        "checks": checks,
        "notes": "All checks: ./check <id> [--tier quick|thorough]; VERIF_SEED selects the additional seeded palette (the fixed palette is always enumerated in full). Known findings: /verif/known_findings.json.",
        "not_applicable": na,
    }
    json.dump(man, open(os.path.join(HERE, "MANIFEST.json"), "w"), indent=1)
    print("checks:", [c["property_id"] for c in checks], "n/a:", len(na))

main()
