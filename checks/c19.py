"""
C19 - domain equalisation interpolates onto the exact overlap at coarsest resolution.

ALL tuples of 2, 3 (quick) and 4 (thorough) domains from a menu of 9 x identity-basis arrays (every one-hot along
the domain axis at once) in ranks 1-3 with the domain on every axis x stack / concatenate options; estimator
capture / register_system with a foreign domain.  Oracle: pure-Python piecewise-linear interpolation, own trapezoid.
"""

import itertools

import numpy as np

from mc import oracles as O
from mc.kernel import exc_sig

PROPERTY = "C19"
RULE = ("unit = first domain of the tuple (+ tuple length); paths = every tuple of menu domains starting with it x array layout; "
        "non-trivial = tuples with a proper overlap (interpolation happens) ; distinct by (tuple, layout)")
ASSUMPTIONS = ["when overlap/step has fractional part exactly 1/2 either rounding is accepted", "overlap shorter than the coarsest step: not asserted (statement leaves it open)"]
BOUNDS = {"quick": "all 81 pairs and 729 triples of 9 domains; the pairs again in two other coordinate frames (SI metres, offset 1e6)", "thorough": "plus all 6561 quadruples; triples in the other frames"}
TECHNIQUE = "all tuples of 2-4 domains from a 9-domain menu x basis arrays x axis layouts, against a pure-Python interpolation oracle"
LEVEL_TEXT = "every tuple of menu domains is equalised with identity-basis arrays (so every basis function is interpolated); start, end, spacing, count and every interpolated value are decided against an independent piecewise-linear oracle; estimator captures with a foreign domain against the trapezoid integral on the common grid"
LEVEL_NOTE = "9-domain menu (uniform steps 1, 1/2, 3; non-uniform; nested; partially overlapping; touching; disjoint; unsorted)"
KE = ("exc", "msg", "api", "class")
KV = ("api", "what", "class", "layout", "frame")

MENU = {
    "u1": [0, 1, 2, 3, 4, 5, 6],
    "uhalf": [1, 1.5, 2, 2.5, 3, 3.5, 4, 4.5, 5],
    "u3": [0, 3, 6, 9],
    "nonuni": [0, 1, 2.5, 4, 7],
    "nested": [2, 3, 4],
    "partial": [4, 5, 6, 7, 8, 9, 10],
    "touch": [6, 7, 8],
    "disjoint": [20, 21, 22],
    "unsorted": [4, 0, 2.5, 7, 1],
}
NAMES = list(MENU)
# long measured axes with one-decimal end points against an integer-nm grid (end points that a start + k * step formula does not hit exactly)
MENU_LONG = {
    "nm-int": np.arange(300.0, 701.0, 1.0).tolist(),
    "lin74": np.linspace(357.8, 677.6, 74).tolist(),
    "lin41": np.linspace(369.2, 692.1, 41).tolist(),
    "lin37": np.linspace(332.7, 639.1, 37).tolist(),
    "lin53": np.linspace(301.3, 688.9, 53).tolist(),
}
MENU.update(MENU_LONG)
# the same menu in other coordinate frames x -> a*x + b (wavelengths in SI metres; a large offset relative to the step)
# "int": integer-valued domains are handed over as integer-typed arrays (np.arange(300, 700) style)
FRAMES = {"plain": (1.0, 0.0), "metres": (0.5e-9, 300e-9), "offset1e6": (1.0, 1.0e6), "int": (1.0, 0.0)}


def _dom(name, frame):
    a, b = FRAMES[frame]
    d = np.array([a * v + b for v in MENU[name]], dtype=float)
    if frame == "int" and np.all(d == np.round(d)):
        return d.astype(np.int64)
    return d


def _v(rec, clause, sig, *a, **k):
    rec.violation(clause, sig, *a, keys=(KE if "exc" in sig else KV), **k)


def units(tier, seed):
    out = []
    for first in NAMES:
        for k in ((2, 3) if tier == "quick" else (2, 3, 4)):
            for frame in FRAMES:
                if frame != "plain" and k > (2 if tier == "quick" else 3):
                    continue
                out.append(dict(kind="equalize", first=first, k=k, frame=frame, tier=tier))
    for first in MENU_LONG:
        out.append(dict(kind="equalize", first=first, k=2, frame="plain", pool=list(MENU_LONG), tier=tier))
    out.append(dict(kind="estimator", tier=tier))
    return out


def interp_matrix(dom, new):
    """M (len(new) x len(dom)) with M @ values = piecewise-linear interpolation (pure Python, own sort)."""
    order = sorted(range(len(dom)), key=lambda i: dom[i])
    xs = [float(dom[i]) for i in order]
    M = [[0.0] * len(dom) for _ in new]
    for r, x in enumerate(new):
        x = float(x)
        if x <= xs[0]:
            j = 0
        elif x >= xs[-1]:
            j = len(xs) - 2
        else:
            j = max(i for i in range(len(xs) - 1) if xs[i] <= x)
        x0, x1 = xs[j], xs[j + 1]
        t = (x - x0) / (x1 - x0)
        M[r][order[j]] += 1.0 - t
        M[r][order[j + 1]] += t
    return np.array(M)


def expected_domain(doms):
    lemin = max(min(d) for d in doms)
    lemax = min(max(d) for d in doms)
    step = max(float(np.mean(np.diff(sorted(d)))) for d in doms)
    if lemin >= lemax:
        return "reject", None
    if (lemax - lemin) < step:
        return "open", None
    q = (lemax - lemin) / step
    cands = {int(np.floor(q + 0.5)) + 1, int(np.ceil(q - 0.5)) + 1}
    return "ok", (lemin, lemax, step, cands)


def run_unit(unit, rec):
    import dreye

    if unit["kind"] == "estimator":
        return _run_estimator(unit, rec, dreye)
    first, k, frame = unit["first"], unit["k"], unit.get("frame", "plain")
    pool = unit.get("pool", NAMES)
    for rest in itertools.product(pool, repeat=k - 1):
        tup = (first,) + rest
        doms = [_dom(n, frame) for n in tup]
        # round-off of the interpolation weights (x - x0) / (x1 - x0) grows with |x| / step
        tolv = 1e-12 + 64 * 2.3e-16 * max(float(np.max(np.abs(d))) for d in doms) / min(float(np.min(np.abs(np.diff(np.sort(d))))) for d in doms)
        identical = all(np.array_equal(doms[0], d) for d in doms)
        kind, info = expected_domain([list(d) for d in doms])
        cls = "identical" if identical else {"reject": "no-overlap", "open": "overlap<step", "ok": "overlap"}[kind]
        rec.state(tup)
        layouts = ["eye-last"] if k >= 3 and tup[1] != tup[-1] else ["eye-last", "eye-axis0", "rank3-axis1", "rank3-axis0", "rank4-axis1", "stack", "stack-last", "stack-neg2", "concat", "concat-neg", "rank1"]
        if "pool" in unit:
            layouts = ["stack", "rank1"]
        for lay in layouts:
            arrs, axes, kw = [], None, {}
            for d in doms:
                n = len(d)
                E = np.eye(n)
                if lay == "eye-last":
                    arrs.append(E)
                elif lay == "eye-axis0":
                    arrs.append(E.T.copy() * 1.0)
                    axes = 0
                elif lay == "rank3-axis1":
                    arrs.append(np.stack([E, 2 * E], axis=2))  # (n_basis, n_domain, 2): domain on axis 1
                    axes = 1
                elif lay in ("rank3-axis0", "rank4-axis1"):
                    # the domain axis two or more positions before the last one; the other axes have distinct sizes
                    vals = ((np.arange(n) * 3) % 5) * 0.5 + 0.25 * (np.arange(n) % 2)
                    blk = np.multiply.outer(vals, np.array([[1.0, 2.0, 3.0], [-1.0, 0.5, 0.25]]))  # (n, 2, 3)
                    if lay == "rank3-axis0":
                        arrs.append(blk)
                        axes = 0
                    else:
                        arrs.append(np.multiply.outer(np.array([1.0, -2.0, 0.5, 4.0]), blk))  # (4, n, 2, 3)
                        axes = 1
                elif lay in ("stack", "stack-last", "stack-neg2"):
                    arrs.append(np.stack([np.arange(n) * 1.0, (np.arange(n) % 2) * 2.0 - 0.5]))
                    # the new axis counted from the front or from the end (the stacked result has one axis more than the arrays)
                    kw = dict(stack_axis={"stack": 0, "stack-last": -1, "stack-neg2": -2}[lay])
                elif lay == "concat-neg":
                    arrs.append(E)
                    kw = dict(stack_axis=-2, concatenate=True)
                elif lay == "concat":
                    arrs.append(E)
                    kw = dict(stack_axis=0, concatenate=True)
                else:
                    arrs.append((np.arange(n) * 3 % 5) * 0.5)
            if lay == "rank3-axis1":
                axes = [1] * k
            sig = dict(api="equalize_domains", layout=lay, frame=frame, **{"class": cls})
            case = dict(domains=list(tup), layout=lay, frame=frame)
            rec.path()
            rec.trans()
            copies = [a.copy() for a in arrs]
            try:
                nd, out = dreye.equalize_domains([d for d in doms], arrs, axes=axes, **kw)
                err = None
            except ValueError as e:
                err = e
            except Exception as e:  # noqa
                _v(rec, "e", dict(sig, **exc_sig(e)), "equalize_domains raised %r" % (e,), case)
                rec.outcome("%s/exception" % cls)
                continue
            if any(not np.array_equal(a, c) for a, c in zip(arrs, copies)):
                _v(rec, "d", dict(sig, what="input-mutated"), "an input array was modified", case)
            if cls == "no-overlap":
                rec.distinct((tup, lay, frame))
                rec.outcome("no-overlap/%s" % ("rejected" if err is not None else "accepted"))
                if err is None:
                    _v(rec, "e", dict(sig, what="not-rejected"), "non-overlapping domains were not rejected", case, observed=np.asarray(nd))
                continue
            if cls == "overlap<step":
                rec.outcome("open/%s" % ("rejected" if err is not None else "returned"))
                continue
            if err is not None:
                _v(rec, "e", dict(sig, what="rejected", **exc_sig(err)), "overlapping domains rejected: %r" % (err,), case)
                rec.outcome("%s/rejected" % cls)
                continue
            nd = np.asarray(nd, dtype=float)
            if cls == "identical":
                rec.distinct((tup, lay, frame))
                okd = np.array_equal(nd, doms[0])
                if kw:
                    ref = np.concatenate(arrs, axis=kw["stack_axis"]) if kw.get("concatenate") else np.stack(arrs, axis=kw["stack_axis"])
                    oka = np.array_equal(np.asarray(out), ref)
                else:
                    oka = len(out) == len(arrs) and all(np.array_equal(o, a) for o, a in zip(out, arrs))
                rec.outcome("identical/%s" % ("unchanged" if okd and oka else "changed"))
                if not (okd and oka):
                    _v(rec, "d", dict(sig, what="changed"), "arrays sharing one domain were not returned unchanged", case)
                continue
            rec.distinct((tup, lay, frame))
            lemin, lemax, step, cands = info
            bad = None
            if nd.ndim != 1 or len(nd) < 2:
                bad = ("a", "new domain has wrong shape")
            elif nd[0] != lemin or nd[-1] != lemax:
                bad = ("a", "new domain [%r, %r] does not start/end exactly at the overlap [%r, %r]" % (nd[0], nd[-1], lemin, lemax))
            elif len(nd) not in cands:
                bad = ("b", "new domain has %d points, expected %s (overlap %.4g / coarsest mean step %.4g)" % (len(nd), sorted(cands), lemax - lemin, step))
            elif np.max(np.abs(np.diff(nd) - (lemax - lemin) / (len(nd) - 1))) > 1e-9 * step + 8e-16 * abs(lemax):
                bad = ("b", "new domain is not uniformly spaced")
            if bad:
                _v(rec, bad[0], dict(sig, what=bad[1][:25]), bad[1], case, observed=nd, expected=dict(start=lemin, end=lemax, step=step))
                rec.outcome("overlap/bad-domain")
                continue
            # c: arrays
            exp = []
            for d, a in zip(doms, arrs):
                M = interp_matrix(list(d), list(nd))  # (N, n)
                ax = -1 if axes is None else (axes if isinstance(axes, int) else axes[0])
                exp.append(np.moveaxis(np.tensordot(M, np.moveaxis(a, ax, 0), axes=([1], [0])), 0, ax))
            if kw:
                expo = np.concatenate(exp, axis=kw["stack_axis"]) if kw.get("concatenate") else np.stack(exp, axis=kw["stack_axis"])
                okc = np.shape(out) == expo.shape and np.max(np.abs(np.asarray(out) - expo)) <= tolv * (1 + np.max(np.abs(expo)))
            else:
                okc = len(out) == len(exp) and all(np.shape(o) == e.shape and np.max(np.abs(np.asarray(o) - e)) <= tolv * (1 + np.max(np.abs(e))) for o, e in zip(out, exp))
            rec.outcome("overlap/%s" % ("interpolated" if okc else "wrong-values"))
            if not okc:
                _v(rec, "c", dict(sig, what="values"), "interpolated arrays differ from piecewise-linear interpolation on the new grid", case,
                   observed=[np.asarray(o).ravel()[:8] for o in (out if not kw else [out])], expected=[e.ravel()[:8] for e in (exp if not kw else [expo])])
    rec.sample(dict(first=first, k=k, example_tuple=[first] + [NAMES[1]] * (k - 1)), cap=1)


def _run_estimator(unit, rec, dreye):
    for fa, fb in list(itertools.product(NAMES, repeat=2)) + [("nm-int", k_) for k_ in MENU_LONG if k_ != "nm-int"]:
        da, db = np.array(MENU[fa], dtype=float), np.array(MENU[fb], dtype=float)
        if fa == "unsorted":
            continue  # the estimator's own domain is documented as ascending
        m = 2
        filters = np.array([((np.arange(len(da)) * 3 + i) % 5) * 0.5 + 0.25 for i in range(m)])
        signals = np.array([((np.arange(len(db)) * 2 + j) % 4) * 0.75 for j in range(3)])
        kind, info = expected_domain([list(da), list(db)])
        identical = np.array_equal(da, db)
        cls = "identical" if identical else {"reject": "no-overlap", "open": "overlap<step", "ok": "overlap"}[kind]
        sig = dict(api="ReceptorEstimator.capture(domain=)", **{"class": cls})
        case = dict(filters_domain=fa, signal_domain=fb)
        rec.state(("est", fa, fb))
        for api in ("capture", "register_system"):
            rec.path()
            rec.trans(2)
            try:
                est = dreye.ReceptorEstimator(filters, domain=da)
                if api == "capture":
                    out = np.asarray(est.capture(signals, domain=db))
                else:
                    est.register_system(signals, domain=db)
                    out = np.asarray(est.system_capture(np.eye(3)))
                err = None
            except ValueError as e:
                err = e
            except Exception as e:  # noqa
                _v(rec, "f", dict(sig, api=api, **exc_sig(e)), "%s with a foreign domain raised %r" % (api, e), case)
                continue
            if cls == "no-overlap":
                rec.distinct((fa, fb, api))
                if err is None:
                    _v(rec, "e", dict(sig, api=api, what="not-rejected"), "non-overlapping signal domain accepted", case)
                rec.outcome("est-no-overlap/%s" % ("rejected" if err else "accepted"))
                continue
            if cls == "overlap<step":
                continue
            if err is not None:
                _v(rec, "f", dict(sig, api=api, **exc_sig(err)), "%s rejected an overlapping domain: %r" % (api, err), case)
                continue
            rec.distinct((fa, fb, api))
            if api == "capture" and np.all(da == np.round(da)):
                # the estimator's own domain given as an integer-typed array (np.arange(300, 701, 5)): same answer
                rec.trans(2)
                try:
                    out_i = np.asarray(dreye.ReceptorEstimator(filters, domain=da.astype(np.int64)).capture(signals, domain=db))
                    same_i = out_i.shape == out.shape and bool(np.array_equal(out_i, out))
                except Exception as e:  # noqa
                    same_i = False
                rec.outcome("est-int-domain/%s" % ("same" if same_i else "differs"))
                if not same_i:
                    _v(rec, "f", dict(sig, api="capture", what="int-typed filter domain"), "an estimator built with an integer-typed filter domain captures a signal on a foreign domain differently from the same domain given as floats", case)
            if identical:
                grid = da
                F, S = filters, signals
            else:
                lemin, lemax, step, cands = info
                # the count is checked by the equalize units; take the library's rounding rule where the statement allows both
                num = int(np.around((lemax - lemin) / step)) + 1 if len(cands) > 1 else list(cands)[0]
                grid = np.linspace(lemin, lemax, num)
                F = filters @ interp_matrix(list(da), list(grid)).T
                S = signals @ interp_matrix(list(db), list(grid)).T
            exp = O.capture_ref(F, S, x=grid)
            ok = out.shape == exp.shape and np.max(np.abs(out - exp)) <= 1e-10 * (1 + np.max(np.abs(exp)))
            rec.outcome("est-%s/%s" % (cls, "ok" if ok else "bad"))
            if not ok:
                _v(rec, "f", dict(sig, api=api, what="value"), "capture with a foreign domain differs from the trapezoid integral of interpolated signal x interpolated filters on the common grid", case, observed=out, expected=exp)
            if api == "register_system":
                # history: registering a system measured on its own domain must not change later captures of the estimator
                # (differential oracle: an estimator that never registered a system; its answers are decided above)
                for fc in NAMES:
                    dc = np.array(MENU[fc], dtype=float)
                    sc = np.array([((np.arange(len(dc)) * 5 + j) % 7) * 0.25 for j in range(2)])
                    rec.path()
                    rec.trans(3)
                    res = []
                    for e_ in (est, dreye.ReceptorEstimator(filters, domain=da)):
                        try:
                            res.append(np.asarray(e_.capture(sc, domain=dc)))
                        except Exception as e:  # noqa
                            res.append(type(e).__name__)
                    if isinstance(res[0], str) or isinstance(res[1], str):
                        same = isinstance(res[0], str) and isinstance(res[1], str) and res[0] == res[1]
                    else:
                        same = res[0].shape == res[1].shape and bool(np.array_equal(res[0], res[1]))
                    rec.distinct((fa, fb, fc, "after-register_system"))
                    rec.outcome("est-history/%s" % ("same" if same else "differs"))
                    if not same:
                        _v(rec, "f", dict(sig, api="register_system->capture", what="history"), "capture(signal, domain=...) changes after register_system(sources, domain=...) on another domain",
                           dict(filters_domain=fa, system_domain=fb, signal_domain=fc), observed=res[0], expected=res[1])
    rec.sample(dict(api="ReceptorEstimator.capture(domain=)", pairs=len(NAMES) ** 2), cap=1)
