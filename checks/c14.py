"""
C14 - estimator answers depend only on what is currently registered; queries are pure.   (the state-space check)

Breadth-first exploration of ALL operation histories over a 15-operation alphabet (register_system x2,
register_bounds x2, register_adaptation x2, register_baseline x2, register_background_adaptation replace|add,
register_system_adaptation replace|add, register_targets x2, fit()) up to a depth bound, with canonical-state
de-duplication.  In every reached state a battery of ~20 queries is run; oracles:
 (a) step-by-step agreement with a stateless reference model (own trapezoid / own K(Q+b) / own box test),
 (b) differential: a FRESH estimator constructed directly from the currently registered values must give
     bit-identical answers to every query (any dependence on the history is a difference),
 (c) purity: state key unchanged by every query, second answer identical to the first, battery order irrelevant,
 (d) caller arrays byte-identical after every call.
"""

import copy
import itertools
import warnings

import numpy as np

from mc import build as Bd
from mc import oracles as O
from mc.kernel import exc_sig

PROPERTY = "C14"
RULE = ("unit = first two operations of a history; inside the unit every continuation up to the depth bound is explored breadth-first with de-duplication on the "
        "canonical state key (bytes of every instance attribute); transitions = mutating calls executed; in every distinct state the full query battery runs "
        "(twice, and once in reversed order, and on a fresh object built from the registered values); non-trivial = states with a registered system")
ASSUMPTIONS = ["merging states with equal canonical keys is sound because the class keeps no other state (no caches, no module globals): the key is all of vars(est)",
               "fit() is treated as a nondeterministic-specification step: its result must satisfy bounds + optimality (C04 tolerances); the model then adopts the fitted values",
               "matrix K with add=True is excluded from the alphabet (meaning not documented)"]
BOUNDS = {"quick": "depth 3 (all 15^3 histories modulo de-duplication)", "thorough": "depth 4"}
CAP_S = {"quick": 900, "thorough": 7200}
TECHNIQUE = "explicit-state BFS over all operation histories up to a depth bound on the real object, canonical-state de-duplication, reference-model + fresh-object differential + purity oracles in every state"
LEVEL_TEXT = ("all histories of registration calls and fit() up to the depth bound are executed on real ReceptorEstimator objects; every distinct reachable state is checked against a stateless "
              "reference model, against a fresh object built from the registered values (bit-identical answers required) and for query purity")
LEVEL_NOTE = "one 2-receptor estimator with two alternative systems (3 and 2 sources); depth bound 3 (quick) / 4 (thorough); solver determinism assumed for bit-identical differential answers (checked: repeated answers are compared first)"
KE = ("exc", "msg", "op", "query")
KV = ("what", "op", "query")

# --------------------------------------------------------------------------- fixtures
DOM = 300.0 + 10.0 * np.arange(5)
WTS = O.trapz_weights(5, x=DOM)
FILTERS = np.array([[0.0, 2.0, 3.0, 1.0, 0.25], [0.5, 0.25, 1.0, 3.0, 2.0]]) / 8.0
S3 = np.array([[4.0, 2.0, 0.5, 0.0, 0.0], [0.0, 1.0, 3.0, 1.0, 0.0], [0.0, 0.0, 0.5, 2.0, 4.0]]) / 8.0
S2 = np.array([[3.0, 3.0, 1.0, 0.0, 0.0], [0.0, 0.5, 1.0, 2.0, 3.0]]) / 8.0
BG1 = np.array([1.0, 1.0, 1.0, 1.0, 1.0]) * 0.25
BG2 = np.array([0.5, 0.25, 0.125, 0.25, 1.0])
T1 = np.array([[0.5, 0.75], [1.25, 0.5], [0.25, 1.5], [6.0, 0.05]])
T2 = np.array([[1.0, 1.0], [0.125, 0.25]])
W2 = np.array([[1.0, 2.0], [0.5, 1.0]])

OPS = [
    ("register_system", "S3"), ("register_system", "S2+bounds"),
    ("register_bounds", "both"), ("register_bounds", "ub-only"), ("register_bounds", "ub-low"), ("register_bounds", "lb-low"),
    ("register_adaptation", "vector"), ("register_adaptation", "scalar"),
    ("register_baseline", "vector"), ("register_baseline", "zero"),
    ("register_background_adaptation", "replace"), ("register_background_adaptation", "add"),
    ("register_system_adaptation", "replace"), ("register_system_adaptation", "add"),
    ("register_targets", "T1"), ("register_targets", "T2+W"),
    ("fit", ""),
]


def _v(rec, clause, sig, *a, **k):
    rec.violation(clause, sig, *a, keys=(KE if "exc" in sig else KV), **k)


def units(tier, seed):
    depth = 3 if tier == "quick" else 4
    out = []
    for a in range(len(OPS)):
        for b in range(len(OPS)):
            out.append(dict(prefix=[a, b], depth=depth, tier=tier))
    # deeper exploration of the target life cycle (register system / targets / fit / re-register): a sub-alphabet, two more steps
    sub_ops = [i for i, o in enumerate(OPS) if o in (("register_system", "S2+bounds"), ("register_targets", "T1"), ("register_targets", "T2+W"), ("fit", ""), ("register_bounds", "both"))]
    for a in sub_ops:
        for b in sub_ops:
            out.append(dict(prefix=[a, b], depth=depth + 2, ops=sub_ops, tier=tier))
    return out


# --------------------------------------------------------------------------- reference model (stateless, boring)
def model_init():
    return dict(K=np.ones(1), baseline=np.zeros(1), w=np.ones(2), sources=None, lb=None, ub=None, A=None, B=None, W=None)


def model_capture(sig):
    return np.einsum("...d,id,d->...i", np.asarray(sig, dtype=float), FILTERS, WTS)


def model_apply(M, op):
    """returns (new model, ok?) ; ok False = the call must be refused (state unchanged)"""
    M = dict(M)
    name, arg = op
    registered = M["A"] is not None
    bvec = np.broadcast_to(M["baseline"], (2,)) if M["baseline"].size in (1, 2) else M["baseline"]
    if name == "register_system":
        if arg == "S3":
            M["sources"], M["lb"], M["ub"] = S3, np.zeros(3), np.full(3, np.inf)
        else:
            M["sources"], M["lb"], M["ub"] = S2, np.array([0.0, 0.25]), np.array([1.0, 1.5])
        M["A"] = model_capture(M["sources"]).T
        return M, True
    if name == "register_bounds":
        if not registered:
            return M, False
        n = M["A"].shape[1]
        if arg == "both":
            M["lb"], M["ub"] = np.full(n, 0.125), 1.0 + 0.5 * np.arange(n)
        elif arg == "ub-low":
            M["ub"] = np.full(n, 0.1)  # below a positive lower bound registered earlier: the box is empty until lb follows
        elif arg == "lb-low":
            M["lb"] = np.full(n, 0.05)
        else:
            M["ub"] = np.full(n, 2.0)
        return M, True
    if name == "register_adaptation":
        M["K"] = np.array([0.5, 2.0]) if arg == "vector" else np.array([1.5])
        return M, True
    if name == "register_baseline":
        M["baseline"] = np.array([0.25, 0.5]) if arg == "vector" else np.zeros(1)
        return M, True
    if name == "register_background_adaptation":
        qb = model_capture(BG1 if arg == "replace" else BG2) + bvec
        M["K"] = (M["K"] + 1.0 / qb) if arg == "add" else 1.0 / qb
        return M, True
    if name == "register_system_adaptation":
        if not registered:
            return M, False
        n = M["A"].shape[1]
        x = np.full(n, 0.5) if arg == "replace" else 0.25 + 0.25 * np.arange(n)
        qb = x @ M["A"].T + bvec
        M["K"] = (M["K"] + 1.0 / qb) if arg == "add" else 1.0 / qb
        return M, True
    if name == "register_targets":
        if not registered:
            return M, False
        if arg == "T1":
            M["B"], M["W"] = T1.copy(), None
        else:
            M["B"], M["W"] = T2.copy(), W2.copy()
        return M, True
    if name == "fit":
        if not registered or M["B"] is None:
            return M, False
        M["B"] = "adopt"  # nondeterministic specification: adopted from the implementation after checking
        return M, True
    raise AssertionError(op)


def model_abar(M):
    return O.transform(M["A"], M["K"], M["baseline"])


# --------------------------------------------------------------------------- driving the implementation
def impl_apply(est, op, n=3):
    """perform the operation on the real object; returns (exception or None, list of (caller array, copy))"""
    name, arg = op
    args = []

    def keep(a):
        a = np.array(a, dtype=float)
        args.append((a, a.copy()))
        return a

    try:
        if name == "register_system":
            if arg == "S3":
                est.register_system(keep(S3))
            else:
                est.register_system(keep(S2), lb=keep([0.0, 0.25]), ub=keep([1.0, 1.5]))
        elif name == "register_bounds":
            if arg == "both":
                est.register_bounds(lb=keep(np.full(n, 0.125)), ub=keep(1.0 + 0.5 * np.arange(n)))
            elif arg == "ub-low":
                est.register_bounds(ub=keep(np.full(n, 0.1)))
            elif arg == "lb-low":
                est.register_bounds(lb=keep(np.full(n, 0.05)))
            else:
                est.register_bounds(ub=keep(np.full(n, 2.0)))
        elif name == "register_adaptation":
            est.register_adaptation(keep([0.5, 2.0]) if arg == "vector" else 1.5)
        elif name == "register_baseline":
            est.register_baseline(keep([0.25, 0.5]) if arg == "vector" else 0.0)
        elif name == "register_background_adaptation":
            est.register_background_adaptation(keep(BG1 if arg == "replace" else BG2), add=(arg == "add"))
        elif name == "register_system_adaptation":
            est.register_system_adaptation(keep(np.full(n, 0.5) if arg == "replace" else 0.25 + 0.25 * np.arange(n)), add=(arg == "add"))
        elif name == "register_targets":
            if arg == "T1":
                est.register_targets(keep(T1))
            else:
                est.register_targets(keep(T2), W=keep(W2))
        elif name == "fit":
            est.fit()
        return None, args
    except Exception as e:  # noqa
        return e, args


def new_est():
    import dreye

    return dreye.ReceptorEstimator(FILTERS.copy(), domain=DOM.copy())


def _n_after(n, op):
    if op[0] == "register_system":
        return 3 if op[1] == "S3" else 2
    return n


def build(hist):
    est = new_est()
    n = 0
    for i in hist:
        impl_apply(est, OPS[i], n=(n or 3))
        if n or OPS[i][0] == "register_system":
            n = _n_after(n, OPS[i])
    return est


def canon(x):
    """hashable, bit-exact representation of an answer"""
    if isinstance(x, tuple) or isinstance(x, list):
        return tuple(canon(v) for v in x)
    if isinstance(x, np.ndarray):
        if x.dtype == object:
            return tuple(canon(v) for v in x)
        return (x.shape, str(x.dtype), x.tobytes())
    if isinstance(x, (float, int, bool, np.floating, np.integer, np.bool_)):
        return ("s", repr(x))
    if x is None:
        return None
    return repr(x)


def battery(est, order=1, n=0):
    """list of (query name, callable); every callable gets fresh argument arrays; returns dict name -> (answer | exception text, args)
    n = number of registered sources according to the reference model (0 = no system registered)"""
    registered = n > 0
    Q = []
    sig2 = np.array([[1.0, 0.5, 0.25, 0.5, 1.0], [0.0, 1.0, 2.0, 1.0, 0.0]])
    Q.append(("capture", lambda a: est.capture(a), [sig2]))
    Q.append(("relative_capture", lambda a: est.relative_capture(a), [sig2]))
    if registered:
        X = np.array([np.full(n, 0.5), 0.25 + 0.5 * np.arange(n), np.zeros(n), np.full(n, 3.0)])
        Bq = np.array([[0.75, 0.75], [0.25, 2.0], [1.0, 0.5]])
        Q.append(("system_capture", lambda a: est.system_capture(a), [X]))
        Q.append(("system_relative_capture", lambda a: est.system_relative_capture(a), [X]))
        Q.append(("in_system", lambda a: est.in_system(a), [X]))
        Q.append(("in_hull", lambda a: est.in_hull(a), [Bq]))
        Q.append(("in_hull-absolute", lambda a: est.in_hull(a, relative=False), [Bq]))
        Q.append(("in_hull-registered", lambda: est.in_hull(), []))
        Q.append(("in_hull-chromatic", lambda a: est.in_hull(a, normalized=True), [Bq]))
        Q.append(("range_of_solutions", lambda a: est.range_of_solutions(a, error="ignore"), [Bq]))
        Q.append(("range_of_solutions-n", lambda a: est.range_of_solutions(a, error="ignore", n=3), [Bq[:1]]))
        Q.append(("sample_in_gamut", lambda: est.sample_in_gamut(n=5, seed=1), []))
        Q.append(("compute_gamut", lambda: est.compute_gamut(seed=1), []))
        Q.append(("fit", lambda a: est.fit(a), [Bq]))
        Q.append(("fit-poisson", lambda a: est.fit(a, model="poisson"), [Bq]))
        Q.append(("fit_underdetermined", lambda a: est.fit_underdetermined(a), [Bq[:1]]))
        Q.append(("minimize_variance", lambda a: est.minimize_variance(a), [Bq[:2]]))
        Q.append(("gamut_l1_scaling", lambda a: est.gamut_l1_scaling(a), [Bq + 1.0]))
        Q.append(("gamut_dist_scaling", lambda a: est.gamut_dist_scaling(a), [Bq]))
        Q.append(("fit_adaptive", lambda a: est.fit_adaptive(a), [Bq[:2]]))
        # non-default options of the same queries: absolute capture, a seeded quasi-Monte-Carlo engine, an explicit variance matrix,
        # a target set with an all-zero row (the row the chromatic scaling replaces internally)
        Bz = np.array([[0.75, 0.75], [0.0, 0.0], [0.1, 3.0]])
        Q.append(("range_of_solutions-absolute", lambda a: est.range_of_solutions(a, error="ignore", relative=False), [Bq]))
        Q.append(("sample_in_gamut-absolute", lambda: est.sample_in_gamut(n=5, seed=1, relative=False), []))
        Q.append(("sample_in_gamut-halton", lambda: est.sample_in_gamut(n=16, seed=1, engine="Halton"), []))
        Q.append(("compute_gamut-absolute", lambda: est.compute_gamut(seed=1, relative=False), []))
        Q.append(("gamut_l1_scaling-absolute", lambda a: est.gamut_l1_scaling(a, relative=False), [Bq + 1.0]))
        Q.append(("gamut_dist_scaling-absolute", lambda a: est.gamut_dist_scaling(a, relative=False), [Bq]))
        Q.append(("gamut_dist_scaling-zero-row", lambda a: est.gamut_dist_scaling(a), [Bz]))
        Q.append(("minimize_variance-explicit", lambda a, e: est.minimize_variance(a, Epsilon=e), [Bq[:2], 0.25 + 0.125 * ((np.arange(2)[:, None] + np.arange(n)[None, :]) % 3)]))

        def fit_registered_on_copy():
            c = copy.deepcopy(est)  # fit() is a mutating operation of the alphabet: observe it on a copy
            c.fit()
            return (np.asarray(c.X), np.asarray(c.B))

        Q.append(("fit()-on-copy", fit_registered_on_copy, []))
    if order < 0:
        Q = Q[::-1]
    out = {}
    for name, fn, args in Q:
        a = [np.array(x, dtype=float) for x in args]
        keepc = [x.copy() for x in a]
        with warnings.catch_warnings():
            warnings.simplefilter("ignore")
            try:
                r = fn(*a)
                ans = ("ok", canon(r), r)
            except Exception as e:  # noqa
                ans = ("exc", type(e).__name__ + ":" + str(e)[:80], None)
        mutated = any(not np.array_equal(x, c) for x, c in zip(a, keepc))
        out[name] = (ans, mutated)
    return out


def fresh_from(est, M=None):
    """a fresh estimator constructed directly from the currently registered values of `est` (read through its documented attributes)"""
    import dreye

    try:
        f = dreye.ReceptorEstimator(np.array(est.filters), domain=np.array(est.domain), w=np.array(est.w), K=np.array(est.K), baseline=np.array(est.baseline))
    except AttributeError:
        return None  # registered values not readable under these names: differential oracle not observable
    try:
        if est.registered:
            f.register_system(np.array(est.sources), domain=np.array(est.sources_domain), lb=np.array(est.lb), ub=np.array(est.ub))
            if est.registered_targets:
                if M is not None and M.get("B") is not None:
                    # the registered weights are taken from the reference model (None = the constructor's w)
                    f.register_targets(np.array(est.B), W=(None if M.get("W") is None else np.array(M["W"])))
                else:
                    Wcur = np.array(est.W)
                    f.register_targets(np.array(est.B), W=(None if np.array_equal(Wcur, np.array(est.w)) else Wcur))
    except AttributeError:
        return None
    return f


# --------------------------------------------------------------------------- the explorer
def run_unit(unit, rec):
    prefix, depth = unit["prefix"], unit["depth"]
    seen = {}
    frontier = [list(prefix[:1])]
    # the unit explores: the 1-op history prefix[:1] (only in the unit with prefix[1] == 0), then everything under prefix
    todo = []
    if prefix[1] == 0:
        todo.append(list(prefix[:1]))
        if prefix[0] == 0:
            todo.append([])
    todo.append(list(prefix))
    queue = list(todo)
    while queue:
        hist = queue.pop(0)
        key = _visit(hist, rec, seen)
        if key is None:
            continue
        if len(hist) >= 2 and len(hist) < depth:
            for i in unit.get("ops", range(len(OPS))):
                queue.append(hist + [i])


def _visit(hist, rec, seen):
    """replay `hist` on a fresh object step by step together with the model; check the last transition; run the battery if the state is new."""
    est = new_est()
    M = model_init()
    hname = [" ".join(OPS[i]).strip() for i in hist]
    case = dict(history=hname)
    all_args = []
    for step, i in enumerate(hist):
        op = OPS[i]
        last = step == len(hist) - 1
        before = Bd.state_key(est)
        M2, ok = model_apply(M, op)
        exc, args = impl_apply(est, op, n=(M["A"].shape[1] if M["A"] is not None else 3))
        all_args.append((op[0], args))
        if last:
            for opn_, args_ in all_args[:-1]:
                if any(not np.array_equal(a, c) for a, c in args_):
                    _v(rec, "e", dict(op=op[0], what="earlier-caller-array-modified"), "%s modified an array that the caller had supplied to an earlier %s call" % (op[0], opn_), case, script=_script(hist))
            rec.trans()
            rec.path()
            sig = dict(op=op[0])
            if any(not np.array_equal(a, c) for a, c in args):
                _v(rec, "e", dict(sig, what="caller-array-modified"), "%s modified an array supplied by the caller" % op[0], case)
            if not ok:
                rec.outcome("refused" if exc is not None else "not-refused")
                if exc is None:
                    _v(rec, "a", dict(sig, what="precondition"), "%s without its prerequisite did not fail" % op[0], case)
                    return None
                if Bd.state_key(est) != before:
                    _v(rec, "a", dict(sig, what="refused-call-changed-state"), "a refused %s call changed the object" % op[0], case)
                return None
            if op[0] == "fit" and M["A"] is not None and np.any(np.asarray(M["lb"]) > np.asarray(M["ub"])):
                # fitting inside an empty box (upper bound registered below the lower bound) has no answer: raising is acceptable,
                # the history is not explored further
                rec.outcome("empty-box-state/fit-%s" % ("raised" if exc is not None else "returned"))
                return None
            if exc is not None:
                _v(rec, "a", dict(sig, **exc_sig(exc)), "%s raised %r after history %s" % (op[0], exc, hname[:-1]), case, script=_script(hist))
                rec.outcome("exception")
                return None
        else:
            if (not ok) or exc is not None:
                return None  # prefix is not a valid history (reported where it is the last step)
        M = M2
        if M.get("B") is not None and isinstance(M["B"], str):
            # fit(): adopt the implementation's result after checking the C04 clauses
            Abar, c0 = model_abar(M)
            Xf, Bf = np.asarray(est.X, dtype=float), np.asarray(est.B, dtype=float)
            if last:
                Wm = np.broadcast_to(np.ones(2) if M["W"] is None else M["W"], Bf.shape)
                Bprev = M["_Bprev"]
                bad = None
                if Xf.shape != (Bprev.shape[0], Abar.shape[1]) or np.max(np.abs(Bf - (Xf @ Abar.T + c0))) > 1e-9 * (1 + np.max(np.abs(Bf))):
                    bad = "registered B after fit() is not the model's capture of the fitted X"
                else:
                    for r in range(len(Bprev)):
                        opt, _ = O.box_lsq(Abar, Bprev[r], M["lb"], M["ub"], w=Wm[r], c0=c0)
                        val = float(np.linalg.norm(Wm[r] * (Bf[r] - Bprev[r])))
                        rng_ = np.where(np.isfinite(M["ub"]), M["ub"] - M["lb"], 1.0)
                        if val > opt + 2e-2 or np.any(Xf[r] < M["lb"] - 0.01 * rng_) or np.any(Xf[r] > M["ub"] + 0.01 * rng_):
                            bad = "fit() result is not the bounded least-squares optimum of the registered targets (residual %.4g vs %.4g)" % (val, opt)
                if bad:
                    _v(rec, "a", dict(op="fit", what=bad[:40]), bad, case, script=_script(hist))
            M["B"] = Bf.copy()
        if M.get("B") is not None:
            M["_Bprev"] = np.asarray(M["B"]).copy()
    # a state is the pair (implementation state, reference-model state): two histories are merged only when BOTH agree
    # (an implementation that fails to update something would otherwise be merged with an earlier, legitimately equal state)
    mkey = tuple((k_, None if v_ is None else (v_ if isinstance(v_, str) else np.asarray(v_, dtype=float).tobytes())) for k_, v_ in sorted(M.items()) if not k_.startswith("_"))
    key = (Bd.state_key(est), mkey)
    if key in seen:
        rec.outcome("duplicate-state")
        return None
    seen[key] = True
    rec.state(key)
    registered = M["A"] is not None
    if registered:
        rec.distinct(key)
    if registered and np.any(np.asarray(M["lb"]) > np.asarray(M["ub"])):
        # an empty box (upper bound registered below the current lower bound): no query has a defined answer here;
        # the state is kept for the exploration (the next registration may repair the box)
        rec.outcome("empty-box-state/not-queried")
        return True
    # ---- (a) reference model on exact queries
    nn = M["A"].shape[1] if registered else 0
    ans1 = battery(est, n=nn)
    key_after = Bd.state_key(est)
    if key_after != key[0]:
        # informational only: a correct implementation may memoise; purity is decided semantically below
        # (repeat answers, order independence, agreement with a fresh object)
        rec.count("attribute-bytes-changed-by-queries")
    sig2 = np.array([[1.0, 0.5, 0.25, 0.5, 1.0], [0.0, 1.0, 2.0, 1.0, 0.0]])
    Kc = M["K"]
    bvec = np.broadcast_to(M["baseline"], (2,))
    exact = {"capture": model_capture(sig2), "relative_capture": (model_capture(sig2) + bvec) * Kc}
    if registered:
        n = M["A"].shape[1]
        X = np.array([np.full(n, 0.5), 0.25 + 0.5 * np.arange(n), np.zeros(n), np.full(n, 3.0)])
        exact["system_capture"] = X @ M["A"].T
        exact["system_relative_capture"] = (X @ M["A"].T + bvec) * Kc
        exact["in_system"] = (X >= M["lb"]) & (X <= M["ub"])
    if registered:
        # the registered bounds, read through the documented attributes, are those of the reference model
        for attr in ("lb", "ub"):
            try:
                val = np.broadcast_to(np.asarray(getattr(est, attr), dtype=float), np.shape(M[attr]))
            except Exception:  # noqa
                continue
            oka = bool(np.array_equal(val, M[attr]))
            rec.outcome("model-agreement/%s" % ("ok" if oka else "bad"))
            if not oka:
                _v(rec, "a", dict(query="attribute:" + attr, what="differs-from-reference-model", op=(OPS[hist[-1]][0] if hist else "init")), "registered %s differs from the reference model after history %s" % (attr, hname), case,
                   observed=val, expected=M[attr], script=_script(hist))
    for q, ref in exact.items():
        (st, cv, raw), mut = ans1[q]
        okv = st == "ok" and np.shape(raw) == ref.shape and (np.array_equal(raw, ref) if ref.dtype == bool else np.all(np.abs(np.asarray(raw, dtype=float) - ref) <= 1e-12 * (1 + np.abs(ref))))
        rec.outcome("model-agreement/%s" % ("ok" if okv else "bad"))
        if not okv:
            _v(rec, "a", dict(query=q, what="differs-from-reference-model", op=(OPS[hist[-1]][0] if hist else "init")), "%s differs from the reference model after history %s" % (q, hname), case,
               observed=raw if st == "ok" else cv, expected=ref, script=_script(hist))
    if registered:
        # gamut decisions with margin against the zonotope oracle
        Abar, c0 = model_abar(M)
        Bq = np.array([[0.75, 0.75], [0.25, 2.0], [1.0, 0.5]])
        if np.all(np.isfinite(M["ub"])):
            mg = O.zono_margin(Bq, Abar, c0, M["lb"], M["ub"])
        else:
            mg = O.cone_margin(Bq, Abar, c0 + Abar @ M["lb"])
        (st, cv, raw), _ = ans1["in_hull"]
        if st == "ok" and mg is not None:
            ext = max(1e-9, float(np.max(np.abs(Abar) @ np.where(np.isfinite(M["ub"]), M["ub"] - M["lb"], 1.0))))
            for j in range(3):
                if abs(mg[j]) > 1e-6 * ext and bool(np.asarray(raw)[j]) != bool(mg[j] > 0):
                    _v(rec, "a", dict(query="in_hull", what="differs-from-reference-model", op=(OPS[hist[-1]][0] if hist else "init")), "in_hull differs from the reference model's gamut after history %s" % hname, case,
                       observed=np.asarray(raw), expected=mg, script=_script(hist))
    if registered and M.get("B") is not None and "in_hull-registered" in ans1:
        # membership of the REGISTERED targets (query without argument) against the reference model's targets and gamut
        (st, cv, raw), _ = ans1["in_hull-registered"]
        Abar, c0 = model_abar(M)
        Bm = np.asarray(M["B"], dtype=float)
        mgr = O.zono_margin(Bm, Abar, c0, M["lb"], M["ub"]) if np.all(np.isfinite(M["ub"])) else O.cone_margin(Bm, Abar, c0 + Abar @ M["lb"])
        if st == "ok" and mgr is not None and np.shape(raw) == (len(Bm),):
            ext = max(1e-9, float(np.max(np.abs(Abar) @ np.where(np.isfinite(M["ub"]), M["ub"] - M["lb"], 1.0))))
            for j in range(len(Bm)):
                if abs(mgr[j]) > 1e-6 * ext and bool(np.asarray(raw)[j]) != bool(mgr[j] > 0):
                    _v(rec, "a", dict(query="in_hull-registered", what="differs-from-reference-model", op=(OPS[hist[-1]][0] if hist else "init")),
                       "in_hull() of the registered targets differs from the reference model (registered targets %s) after history %s" % (Bm[j].tolist(), hname), case, observed=np.asarray(raw), expected=mgr, script=_script(hist))
                    break
    if registered and M.get("B") is not None and "fit()-on-copy" in ans1:
        (st, cv, raw), _ = ans1["fit()-on-copy"]
        Abar, c0 = model_abar(M)
        Bm = np.asarray(M["B"], dtype=float)
        Wm = np.broadcast_to(np.ones(2) if M["W"] is None else M["W"], Bm.shape)
        if st != "ok":
            _v(rec, "a", dict(query="fit()-on-copy", what="raises", op=(OPS[hist[-1]][0] if hist else "init")), "fit() of the registered targets raises after history %s: %s" % (hname, cv), case, script=_script(hist))
        else:
            Xf, Bf = raw
            for r in range(len(Bm)):
                opt, _ = O.box_lsq(Abar, Bm[r], M["lb"], M["ub"], w=Wm[r], c0=c0)
                val = float(np.linalg.norm(Wm[r] * (np.asarray(Bf)[r] - Bm[r]))) if np.shape(Bf) == Bm.shape else np.inf
                if val > opt + 2e-2:
                    _v(rec, "a", dict(query="fit()-on-copy", what="not-optimal-for-registered-weights", op=(OPS[hist[-1]][0] if hist else "init")),
                       "fit() is not the weighted optimum for the currently registered targets/weights (residual %.4g vs %.4g) after history %s" % (val, opt, hname), case, script=_script(hist))
                    break
    # ---- (c)/(e) purity: second run, reversed order on a replayed object
    ans2 = battery(est, n=nn)
    est_r = build(hist)
    ans3 = battery(est_r, order=-1, n=nn)
    # ---- (c') queries interleaved with the history must not influence later answers:
    #      replay the history with the full battery after EVERY step, then compare the final answers
    est_q = new_est()
    battery(est_q)
    nq = 0
    for i in hist:
        impl_apply(est_q, OPS[i], n=(nq or 3))
        if nq or OPS[i][0] == "register_system":
            nq = _n_after(nq, OPS[i])
        battery(est_q, order=(1 if i % 2 else -1), n=nq)
    ans5 = battery(est_q, n=nn)
    for q, ((st, cv, raw), mut) in ans1.items():
        (st5, cv5, raw5), _ = ans5.get(q, (("missing", None, None), False))
        same = (st, cv) == (st5, cv5)
        rec.outcome("interleaved-queries/%s" % ("same" if same else "differs"))
        if not same:
            _v(rec, "c", dict(query=q, what="earlier-queries-change-answer", op=(OPS[hist[-1]][0] if hist else "init")),
               "%s answers differently when queries were run between the registration calls (history %s)" % (q, hname), case,
               observed=(raw5 if st5 == "ok" else cv5), expected=(raw if st == "ok" else cv), script=_script(hist))
    # ---- (b) differential: fresh object from the registered values
    try:
        fr = fresh_from(est, M)
        if fr is None:
            rec.count("differential-not-observable")
            ans4 = None
        else:
            ans4 = battery(fr, n=nn)
    except Exception as e:  # noqa
        _v(rec, "b", dict(what="fresh-object-construction", **exc_sig(e)), "could not construct a fresh object from the registered values: %r" % (e,), case)
        ans4 = None
    for q, ((st, cv, raw), mut) in ans1.items():
        opn = OPS[hist[-1]][0] if hist else "init"
        if mut:
            _v(rec, "e", dict(query=q, what="caller-array-modified"), "%s modified an array supplied by the caller" % q, case, script=_script(hist))
        (st2, cv2, _), _ = ans2[q]
        (st3, cv3, _), _ = ans3[q]
        if (st, cv) != (st2, cv2):
            _v(rec, "d", dict(query=q, what="repeat-differs"), "the second %s answer differs from the first" % q, case, script=_script(hist))
            rec.outcome("purity/bad")
            continue
        if (st, cv) != (st3, cv3):
            _v(rec, "c", dict(query=q, what="order-dependent"), "%s answers differently when the battery runs in reversed order (a query influences a later one)" % q, case, script=_script(hist))
            rec.outcome("purity/bad")
            continue
        rec.outcome("purity/ok")
        if ans4 is not None:
            (st4, cv4, raw4), _ = ans4[q]
            same = (st, cv) == (st4, cv4)
            rec.outcome("differential/%s" % ("identical" if same else "differs"))
            if not same:
                _v(rec, "b", dict(query=q, what="history-dependent", op=opn), "%s of the history-built object differs from a fresh object with the same registered values (history %s)" % (q, hname), case,
                   observed=(raw if st == "ok" else cv), expected=(raw4 if st4 == "ok" else cv4), script=_script(hist))
        if st == "exc":
            rec.count("query-exception:%s:%s" % (q, cv.split(":")[0]))
    if len(hist) >= 3 and registered:
        def short(a):
            (st, cv, raw), _ = a
            return (np.asarray(raw).ravel()[:4].tolist() if (st == "ok" and not isinstance(raw, tuple)) else (st if st == "ok" else cv))
        rec.sample(dict(history=hname, state_is_new=True, answers={q: short(ans1[q]) for q in ("system_relative_capture", "in_hull", "sample_in_gamut") if q in ans1},
                        oracles=["reference model", "repeat", "reversed battery", "interleaved queries", "fresh object from registered values"]), cap=2)
    return key


def _script(hist):
    """stand-alone replay of a history (numpy + dreye only): performs the registration calls and prints a few answers"""
    A = lambda a: "np.array(%r)" % (np.asarray(a).tolist(),)  # noqa
    lines = ["import numpy as np, dreye", "est = dreye.ReceptorEstimator(%s, domain=%s)" % (A(FILTERS), A(DOM))]
    n = 3
    for i in hist:
        name, arg = OPS[i]
        if name == "register_system":
            n = 3 if arg == "S3" else 2
            lines.append("est.register_system(%s)" % A(S3) if arg == "S3" else "est.register_system(%s, lb=%s, ub=%s)" % (A(S2), A([0.0, 0.25]), A([1.0, 1.5])))
        elif name == "register_bounds":
            lines.append("est.register_bounds(lb=%s, ub=%s)" % (A(np.full(n, 0.125)), A(1.0 + 0.5 * np.arange(n))) if arg == "both" else ("est.register_bounds(ub=%s)" % A(np.full(n, 0.1)) if arg == "ub-low" else ("est.register_bounds(lb=%s)" % A(np.full(n, 0.05)) if arg == "lb-low" else "est.register_bounds(ub=%s)" % A(np.full(n, 2.0)))))
        elif name == "register_adaptation":
            lines.append("est.register_adaptation(%s)" % (A([0.5, 2.0]) if arg == "vector" else "1.5"))
        elif name == "register_baseline":
            lines.append("est.register_baseline(%s)" % (A([0.25, 0.5]) if arg == "vector" else "0.0"))
        elif name == "register_background_adaptation":
            lines.append("est.register_background_adaptation(%s, add=%r)" % (A(BG1 if arg == "replace" else BG2), arg == "add"))
        elif name == "register_system_adaptation":
            lines.append("est.register_system_adaptation(%s, add=%r)" % (A(np.full(n, 0.5) if arg == "replace" else 0.25 + 0.25 * np.arange(n)), arg == "add"))
        elif name == "register_targets":
            lines.append("est.register_targets(%s)" % A(T1) if arg == "T1" else "est.register_targets(%s, W=%s)" % (A(T2), A(W2)))
        elif name == "fit":
            lines.append("est.fit()")
    lines.append("Bq = np.array([[0.75, 0.75], [0.25, 2.0], [1.0, 0.5]])")
    lines.append("print('K', est.K, 'baseline', est.baseline)")
    lines.append("print('in_hull', est.in_hull(Bq)); print('fit', est.fit(Bq))")
    lines.append("# the full oracle set is re-run by:  ./check C14 --replay <json>")
    return "\n".join(lines) + "\n"
