"""
C11 - layer decomposition honours every constraint and never worsens its fit.

Systems with finite bounds x layers 1-3 x ALL 0/1 masks with at least one source per layer x equal-L1; the remaining
options (subsample, opacity bounds, seed, mask with/without n_layers) with a deviation bound from their defaults.
EVERY alternating iteration is a transition of the explored run (the hook exposes the loss after each).
Oracles: the constraints themselves; per-iteration loss monotonicity; active-set box least squares for the opacity
rows (last P-step); feasible-candidate bound for the intensity refit (last X-step); bit-identical repeat for the seed.
"""

import copy
import itertools
import warnings

import numpy as np

from mc import alphabets as AL
from mc import build as B
from mc import oracles as O
from mc.kernel import exc_sig

PROPERTY = "C11"
RULE = ("unit = (system, number of layers, option deviation); paths = fit_decomposition runs per mask; transitions = alternating iterations executed (from the hook) + calls; "
        "non-trivial = masks that forbid at least one source or >= 2 layers; distinct by (system, layers, mask, options)")
ASSUMPTIONS = ["max_iter = 25 inside the check (every iteration is observed; convergence is not a clause)", "solver tolerances (SCS at its default accuracy): constraints 2e-3, descent 1e-3 (1 + loss0), optimality of the last factor 2e-2 + 2 % of the loss",
               "the descent clause needs the loss-per-iteration hook (DREYE_VERIF); without it the clause reports 'not observable' and asserts nothing"]
BOUNDS = {"quick": "systems 2x3 (two K/baseline variants), 3x3, 3x3 with mixed lower bounds, 3x3 with non-uniform receptor weights; layers 1-2; all 7 / 49 masks; options: defaults + every single deviation", "thorough": "plus 3x4 (15 / 225 masks, 3 layers with n=2..3), pairs of deviations"}
CAP_S = {"quick": 600, "thorough": 7200}
TECHNIQUE = "all masks x layers x systems, options deviation-bounded; every alternating iteration observed through the hook; constraint / descent / last-factor-optimality / determinism oracles"
LEVEL_TEXT = "every 0/1 mask with at least one source per layer is run for 1-2 (3) layers under the default options and every single option deviation; all constraints, exactness of the prediction, monotone loss on every iteration, optimality of the factor fitted last and bit-identical results for equal seeds are decided"
LEVEL_NOTE = "small scope (<= 4 sources, <= 3 layers, 8-row target image); solver tolerance limits the strength of the numeric clauses"
KE = ("exc", "msg", "layers", "option")
KV = ("what", "layers", "option", "masked")

OPTIONS = {
    "default": {},
    "no-n_layers": dict(_omit_n_layers=True),
    "subsample-half": dict(subsample=0.5),
    "subsample-fast": dict(subsample="fast"),
    "opacity-bounds": dict(lbp=0.2, ubp=0.8),
    "seed-1": dict(seed=1),
    "no-equal-l1": dict(equal_l1norm_constraint=False),
    # a loose (legal) stopping tolerance: the alternation is still moving when it stops; accurate sub-problem solver so that the
    # optimality of the factor fitted last can be decided to 1e-3
    "loose-ftol": dict(ftol=0.1, solver="CLARABEL"),
    "loose-xtol": dict(xtol=0.1, solver="CLARABEL"),
    # per-sample weights registered together with the targets (register_targets(B, W) followed by fit_decomposition())
    "registered-weights": dict(_registered=True),
}


def _v(rec, clause, sig, *a, **k):
    rec.violation(clause, sig, *a, keys=(KE if "exc" in sig else KV), **k)


def _systems(tier):
    out = []
    A23 = AL.A_palette(2, 3, seeded=False)[0][1]
    A33 = AL.A_palette(3, 3, seeded=False)[1][1]
    out.append(("2x3-plain", B.spec_of(A23, np.zeros(3), np.array([1.0, 1.25, 1.5]))))
    out.append(("2x3-K-baseline", B.spec_of(A23, np.zeros(3), np.array([1.0, 1.25, 1.5]), np.array([0.5, 0.875]), 0.5)))
    out.append(("3x3-plain", B.spec_of(A33, np.zeros(3), np.array([1.0, 1.25, 1.5]))))
    # zero and positive lower bounds in one system (masks that forbid a source with a positive lower bound are contradictory and skipped)
    out.append(("3x3-lb-mixed", B.spec_of(A33, np.array([0.0, 0.25, 0.0]), np.array([1.0, 1.25, 1.5]))))
    # non-uniform receptor weights (the weighted error is what must not increase / be optimal)
    out.append(("3x3-weighted", B.spec_of(A33, np.zeros(3), np.array([1.0, 1.25, 1.5]), None, 0.25, w=np.array([2.0, 0.5, 1.25]))))
    if tier != "quick":
        A34 = AL.A_palette(3, 4, seeded=False)[0][1]
        out.append(("3x4-plain", B.spec_of(A34, np.zeros(4), np.array([1.0, 1.25, 1.5, 1.75]))))
    return out


def masks(n, layers):
    rows = [r for r in itertools.product((0, 1), repeat=n) if any(r)]
    return [np.array(c) for c in itertools.product(rows, repeat=layers)]


def units(tier, seed):
    out = []
    for sname, spec in _systems(tier):
        n = len(spec["A"][0])
        for layers in (1, 2, 3):
            if layers == 3 and n > 3:
                continue
            if layers == 3 and tier == "quick" and sname not in ("2x3-plain", "3x3-plain"):
                continue
            nm = len(masks(n, layers))
            opts = list(OPTIONS) if tier == "quick" else list(OPTIONS) + ["subsample-half+opacity-bounds", "no-n_layers+seed-1", "no-equal-l1+opacity-bounds"]
            for opt in opts:
                chunks = max(1, nm // 12)
                for ch in range(chunks):
                    if opt != "default" and tier == "quick" and layers == 2 and ch % 2:
                        continue  # deviations on every second mask chunk in the quick tier
                    if layers == 3 and tier == "quick" and (opt != "default" or ch % 3):
                        continue  # three layers: default options, every third mask chunk in the quick tier
                    out.append(dict(system=sname, layers=layers, option=opt, chunk=ch, chunks=chunks, tier=tier, seed=seed))
    return out


def _image(Abar, c0, lo, hi):
    n = Abar.shape[1]
    rows = []
    for k in range(8):
        x = lo + (hi - lo) * (((np.arange(n) * 3 + k * 5) % 7) / 8.0 + 0.0625)
        rows.append(c0 + (0.25 + 0.75 * ((k * 3) % 8) / 8.0) * (Abar @ x))
    # rows whose best fit wants the sources as dim as the bounds allow (active lower bounds)
    rows.append(c0 + 0.9 * (Abar @ lo) + 0.05 * (Abar @ (hi - lo)) * 0.0)
    rows[1] = c0 + Abar @ (lo + (hi - lo) * (np.arange(n) == 0) * 0.5)
    return np.array(rows)


def run_unit(unit, rec):
    tier = unit["tier"]
    spec = dict(_systems(tier))[unit["system"]]
    layers = unit["layers"]
    kw = {}
    for o in unit["option"].split("+"):
        kw.update(OPTIONS[o])
    omit = kw.pop("_omit_n_layers", False)
    registered = kw.pop("_registered", False)
    est = B.make_est(spec, rec=rec)
    rec.state(B.state_key(est))
    Abar, c0, lo, hi = B.model_of(spec)
    m, n = Abar.shape
    T = _image(Abar, c0, lo, hi)
    Bb = T - c0
    lbp, ubp = kw.get("lbp", 0.0), kw.get("ubp", 1.0)
    wv = np.ones(m) if spec.get("w") is None else np.broadcast_to(np.asarray(B.arr(spec["w"]), dtype=float), (m,))
    Wm = np.broadcast_to(wv, T.shape).copy()
    if registered:
        Wm = np.array([np.roll(np.array([3.0, 0.4, 1.5, 0.6][:m]), k_) * (1.0 + 0.25 * (k_ % 3)) for k_ in range(len(T))])
    try:
        from dreye.api import _verif
    except Exception:  # noqa
        _verif = None
    allm = masks(n, layers)
    for mi in range(unit["chunk"], len(allm), unit["chunks"]):
        mask = allm[mi]
        if np.any((mask == 0) & (lo[None, :] > 0)):
            continue
        masked = bool(np.any(mask == 0))
        sig = dict(layers=layers, option=unit["option"], masked=masked)
        case = dict(mask=mask.tolist(), option=unit["option"])
        call = dict(mask=mask, max_iter=25, seed=kw.get("seed", 0), subsample=kw.get("subsample", None), lbp=lbp, ubp=ubp,
                    equal_l1norm_constraint=kw.get("equal_l1norm_constraint", True))
        for k_ in ("ftol", "xtol", "solver"):
            if k_ in kw:
                call[k_] = kw[k_]
        accurate = kw.get("solver") == "CLARABEL"
        if not omit:
            call["n_layers"] = layers
        scr = B.script_est(spec) + "T = np.array(%r)\nprint(est.fit_decomposition(T, %s))\n" % (T.tolist(), ", ".join("%s=%s" % (k, ("np.array(%r)" % (v.tolist(),)) if isinstance(v, np.ndarray) else repr(v)) for k, v in call.items()))
        rec.path()
        rec.trans()
        if _verif:
            _verif.drain()
        keep = T.copy()
        with warnings.catch_warnings():
            warnings.simplefilter("ignore")
            try:
                if registered:
                    est_r = copy.deepcopy(est)
                    est_r.register_targets(T, Wm)
                    est_r.fit_decomposition(**call)
                    X, P, Bp = est_r.X, est_r.P, est_r.B
                else:
                    X, P, Bp = est.fit_decomposition(T, **call)
            except Exception as e:  # noqa
                _v(rec, "a", dict(sig, **exc_sig(e)), "fit_decomposition raised %r" % (e,), case, script=scr)
                rec.outcome("exception")
                continue
        if masked or layers > 1:
            rec.distinct((unit["system"], layers, unit["option"], mi))
        X, P, Bp = np.asarray(X, dtype=float), np.asarray(P, dtype=float), np.asarray(Bp, dtype=float)
        losses = [e["loss"] for e in _verif.drain() if e.get("kind") == "decomposition_iter"] if _verif else []
        rec.trans(len(losses))
        bad = None
        tolc = 2e-3
        if X.shape != (layers, n) or P.shape != (len(T), layers) or Bp.shape != T.shape:
            bad = ("a", "malformed result shapes %s %s %s" % (X.shape, P.shape, Bp.shape))
        elif not np.array_equal(T, keep):
            bad = ("a", "the caller's target array was modified")
        elif np.any(X < lo - tolc * (hi - lo) - 1e-9) or np.any(X > hi + tolc * (hi - lo) + 1e-9):
            bad = ("b", "layer intensities violate the source bounds")
        elif np.any(P < lbp - tolc) or np.any(P > ubp + tolc):
            bad = ("b", "opacities violate their bounds")
        elif masked and np.max(np.abs(X[mask == 0])) > 1e-3:
            bad = ("c", "a source forbidden by the mask is on (%.3g)" % np.max(np.abs(X[mask == 0])))
        elif layers > 1 and call["equal_l1norm_constraint"] and np.ptp(X.sum(1)) > tolc * max(1.0, float(np.max(X.sum(1)))):
            bad = ("d", "layers do not have equal total intensity (%s)" % np.round(X.sum(1), 5).tolist())
        elif np.max(np.abs(Bp - (P @ X @ Abar.T + c0))) > 1e-9 * (1 + np.max(np.abs(Bp))):
            bad = ("e", "returned fitted capture is not the model's capture of opacities times intensities")
        else:
            loss = lambda X_, P_: float(np.linalg.norm(Wm * (P_ @ X_ @ Abar.T - Bb)))  # noqa  (weighted error)
            # f: descent on every observed iteration
            if losses:
                inc = np.diff(losses)
                rec.stat_max("max_loss_increase_rel", float(np.max(inc, initial=0.0)) / (1 + losses[0]))
                if np.any(inc > 1e-3 * (1 + losses[0])):
                    k = int(np.argmax(inc))
                    bad = ("f", "the fitting error increased from %.6g to %.6g at iteration %d" % (losses[k], losses[k + 1], k + 1))
            else:
                rec.count("descent-not-observable")
            if bad is None:
                final = loss(X, P)
                if call["subsample"]:
                    # last factor = P (all rows), given X: separable bounded least squares per row
                    G = (X @ Abar.T).T  # m x layers
                    worst = 0.0
                    for i in range(len(T)):
                        opt, _ = O.box_lsq(G, Bb[i], np.full(layers, lbp), np.full(layers, ubp), w=Wm[i])
                        worst = max(worst, float(np.linalg.norm(Wm[i] * (P[i] @ X @ Abar.T - Bb[i]))) - opt)
                    rec.stat_max("last_P_excess", worst)
                    if worst > ((1e-3 + 1e-3 * final) if accurate else (2e-2 + 0.02 * final)):
                        bad = ("g", "an opacity row is not optimal given the final intensities (excess residual %.4g)" % worst)
                else:
                    # last factor = X given P: any feasible candidate bounds the optimum from above
                    from scipy.optimize import minimize

                    free = (mask != 0).ravel()

                    def f(z):
                        Xc = np.zeros(layers * n)
                        Xc[free] = z
                        return loss(Xc.reshape(layers, n), P) ** 2

                    z0 = np.clip(X, lo, hi).ravel()[free]
                    cons = []
                    if layers > 1 and call["equal_l1norm_constraint"]:
                        idx = np.arange(layers * n).reshape(layers, n)

                        def eq(z):
                            Xc = np.zeros(layers * n)
                            Xc[free] = z
                            return np.diff(Xc.reshape(layers, n).sum(1))

                        cons.append(dict(type="eq", fun=eq))
                    bnds = [(l, h) for l, h in zip(np.tile(lo, layers)[free], np.tile(hi, layers)[free])]
                    try:
                        r = minimize(f, z0, method="SLSQP", bounds=bnds, constraints=cons, options=dict(ftol=1e-14, maxiter=300))
                        feas = (not cons) or np.max(np.abs(cons[0]["fun"](r.x))) <= 1e-9
                        cand = float(np.sqrt(max(r.fun, 0.0))) if feas else None
                    except Exception:  # noqa
                        cand = None
                    if cand is not None:
                        rec.stat_max("last_X_excess", final - cand)
                        if final > cand + ((1e-3 + 1e-3 * cand) if accurate else (2e-2 + 0.02 * cand)):
                            bad = ("g", "the intensities fitted last are not optimal given the opacities (loss %.5g, a feasible point reaches %.5g)" % (final, cand))
            # h: determinism for the seed
            if bad is None and mi % 3 == 0:
                rec.trans()
                # the repeat starts from another state of numpy's global random source (unrelated draws by the caller in between):
                # the seed argument alone must fix the result
                _state = np.random.get_state()
                np.random.seed(20240229 + mi)
                np.random.random(7)
                with warnings.catch_warnings():
                    warnings.simplefilter("ignore")
                    if registered:
                        est_r2 = copy.deepcopy(est)
                        est_r2.register_targets(T, Wm)
                        est_r2.fit_decomposition(**call)
                        X2, P2 = est_r2.X, est_r2.P
                    else:
                        X2, P2, _ = est.fit_decomposition(T, **call)
                if _verif:
                    rec.trans(len([e for e in _verif.drain() if e.get("kind") == "decomposition_iter"]))
                np.random.set_state(_state)
                if not (np.array_equal(X, X2) and np.array_equal(P, P2)):
                    bad = ("h", "two runs with the same seed give different results")
        rec.outcome("decomposition/%s" % ("ok" if bad is None else "bad"))
        if bad:
            _v(rec, bad[0], dict(sig, what=bad[1][:45]), bad[1], case, observed=dict(X=X, P=P[:3], losses=losses[:6]), expected=dict(mask=mask, lb=lo, ub=hi), script=scr)
    rec.sample(dict(system=unit["system"], layers=layers, option=unit["option"], masks=len(allm), image_rows=len(T)), cap=1)
