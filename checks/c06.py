"""
C06 - range of solutions is the exact per-source extent of the solution polytope.

Underdetermined systems (2-4 receptors, 1-3 surplus sources) x bounds x K x baseline x targets (interior, faces,
edges, vertices from the intensity lattice, outside) x n in {None, 2..10} x error mode.
Oracle: vertex enumeration of {x : Abar x = b - c0, lb <= x <= ub} (cross-checked with HiGHS per source).
"""

import itertools
import warnings

import numpy as np

from mc import alphabets as AL
from mc import build as B
from mc import oracles as O
from mc.kernel import exc_sig

PROPERTY = "C06"
RULE = ("unit = one underdetermined system; paths = range_of_solutions calls per target / n / error mode; non-trivial = in-gamut targets with a "
        "solution polytope of positive dimension (min < max for some source) or decided outside targets; distinct by (system, target, n, mode)")
ASSUMPTIONS = ["delta = 1e-6 x extent separates interior / boundary / outside targets", "spaced solutions: n in 2..10 for one surplus source, n in {2,3} for 2-3 surplus sources (cost n^surplus)"]
BOUNDS = {"quick": "shapes 2x3 2x4 3x4 3x5 4x5 4x6 (+2x5 3x6), bounds x K x baseline with <= 2 deviations; the plain systems again in capture units x1e-3, x1e-5, x1e3", "thorough": "all 2-4 receptors x 1-3 surplus, full cross"}
CAP_S = {"quick": 600, "thorough": 5400}
TECHNIQUE = "all underdetermined systems of the menu x geometric target lattice x n x error mode; extents compared with exhaustive vertex enumeration of the solution polytope"
LEVEL_TEXT = ("every enumerated target is sent through ReceptorEstimator.range_of_solutions / dreye.range_of_solutions; minima, maxima and every spaced solution are decided against the "
              "exhaustively enumerated vertex set of the solution polytope (exact extents), and out-of-gamut handling against the global box-constrained least-squares optimum")
LEVEL_NOTE = "small scope; boundary-layer targets (|margin| < 1e-6 extent) asserted only where the degenerate polytope is numerically unambiguous; HiGHS cross-check of the oracle"
KE = ("exc", "msg", "api", "mode", "target")
KV = ("target", "mode", "surplus", "n", "api", "bounds")


def _v(rec, clause, sig, *a, **k):
    rec.violation(clause, sig, *a, keys=(KE if "exc" in sig else KV), **k)


def units(tier, seed):
    if tier == "quick":
        shapes = [(2, 3), (2, 4), (3, 4), (3, 5), (4, 5), (4, 6), (2, 5), (3, 6)]
        gen = AL.systems(shapes, seed=seed, order=2, bounds=["ub-finite", "lb-pos", "scalar", "lb-mixed"])
    else:
        shapes = [(m, m + s) for m in (2, 3, 4) for s in (1, 2, 3)]
        gen = AL.systems(shapes, seed=seed, cross=True, bounds=["ub-finite", "lb-pos", "scalar", "lb-mixed"])
    out = []
    plain = {}
    # call histories across systems of different sizes with the same number of surplus sources (module-level state must not leak)
    for surplus in (1, 2):
        out.append(dict(kind="sequence", surplus=surplus, names=dict(shape="sequence", surplus=surplus), spec=None, tier=tier))
    for names, A, (lb, ub), K, bl in gen:
        out.append(dict(names=names, spec=B.spec_of(A, lb, ub, K, bl), tier=tier))
        if names.get("K") == "default" and names.get("baseline") == "default" and names.get("bounds") in ("ub-finite", "lb-mixed"):
            plain.setdefault((A.shape, names.get("bounds")), (names, A, lb, ub))
    # the same systems in other capture units (the range of solutions in intensity space does not depend on the unit of capture)
    for (shape, bn), (names, A, lb, ub) in sorted(plain.items(), key=lambda kv: str(kv[0])):
        for label, sc in (("x1e-3", 1e-3), ("x1e-5", 1e-5), ("x1e3", 1e3)):
            if tier == "quick" and shape[0] > 3 and label != "x1e-3":
                continue
            out.append(dict(names=dict(names, capture_unit=label), spec=B.spec_of(A * sc, lb, ub, None, None), tier=tier))
    return out


def _targets(Abar, c0, lo, hi):
    m, n = Abar.shape
    ext = float(np.max(np.abs(Abar) @ (hi - lo)))
    T = []
    # lattice images: vertices / edges / faces of the box (some are gamut boundary, some interior)
    L = AL.lattice(lo, hi, (0.0, 0.5, 1.0))
    if len(L) > 40:
        # keep all box vertices with <= 1 coordinate at mid plus a spread of the rest
        keep = [x for x in L if np.sum((x != lo) & (x != hi)) <= 1]
        keep = keep[:: max(1, len(keep) // 30)]
        rest = L[:: max(1, len(L) // 12)]
        L = np.array(keep + list(rest))
    for x in L:
        T.append(("lattice", c0 + Abar @ x, x))
    for x in AL.lattice(lo, hi, (0.25, 0.75))[:: max(1, 2 ** n // 8)]:
        T.append(("interior", c0 + Abar @ x, x))
    x = lo + (hi - lo) * (0.3 + 0.05 * np.arange(n))
    T.append(("interior", c0 + Abar @ x, x))
    centre = c0 + Abar @ ((lo + hi) / 2)
    for cen, nu in O.zono_facet_points(Abar, c0, lo, hi)[:4]:
        T.append(("outside", cen + 0.1 * ext * nu, None))
        T.append(("near-inside", cen - 1e-3 * ext * nu, None))
    T.append(("outside", centre + 3 * (c0 + Abar @ hi - centre), None))
    T.append(("outside", c0 + Abar @ lo - 0.25, None))
    return T, ext


def _script(spec, t, **kw):
    return B.script_est(spec) + "b = np.array(%r)\nprint(est.range_of_solutions(b%s))\n" % (np.asarray(t).tolist(), "".join(", %s=%r" % kv for kv in kw.items()))


def _run_sequence(unit, rec):
    """systems of growing and shrinking size with the same surplus, queried one after the other in one process"""
    import dreye

    s_ = unit["surplus"]
    shapes = [(2, 2 + s_), (3, 3 + s_), (4, 4 + s_), (2, 2 + s_), (3, 3 + s_)]
    for step, (m, n) in enumerate(shapes):
        A = AL.A_palette(m, n, seeded=False)[0][1]
        lo, hi = np.zeros(n), 1.0 + 0.25 * np.arange(n)
        X_ = np.array([lo + (hi - lo) * (0.3 + 0.05 * ((np.arange(n) + k) % 5)) for k in range(3)])
        P = X_ @ A.T
        rec.path()
        rec.trans()
        sig = dict(shape="sequence", surplus=s_, target="inside", api="dreye.range_of_solutions", mode="sequence")
        try:
            mn, mx = dreye.range_of_solutions(P, A, lo, hi)
        except Exception as e:  # noqa
            _v(rec, "a", dict(sig, **exc_sig(e)), "range_of_solutions raised %r for system %d of the sequence %s" % (e, step, shapes), dict(step=step, shapes=shapes))
            rec.outcome("sequence/exception")
            continue
        okq = True
        for j in range(len(P)):
            V = O.poly_vertices(A, P[j], lo, hi)
            if len(V) and (np.any(np.abs(mn[j] - V.min(0)) > 1e-7 * (hi - lo)) or np.any(np.abs(mx[j] - V.max(0)) > 1e-7 * (hi - lo))):
                okq = False
                _v(rec, "a", dict(sig, what="extent"), "range of solutions of system %d (%dx%d) in the call sequence %s differs from the polytope extents" % (step, m, n, shapes), dict(step=step, shapes=shapes, row=j),
                   observed=dict(min=mn[j], max=mx[j]), expected=dict(min=V.min(0), max=V.max(0)))
                break
        rec.distinct(("sequence", s_, step))
        rec.outcome("sequence/%s" % ("exact" if okq else "wrong"))
    rec.sample(dict(kind="sequence", surplus=s_, shapes=shapes), cap=1)


def run_unit(unit, rec):
    if unit.get("kind") == "sequence":
        return _run_sequence(unit, rec)
    spec, names, tier = unit["spec"], unit["names"], unit["tier"]
    cu = {"x1e-3": 1e-3, "x1e-5": 1e-5, "x1e3": 1e3}.get(names.get("capture_unit"), 1.0)
    try:
        est = B.make_est(spec, rec=rec)
    except Exception as e:  # noqa
        _v(rec, "a", dict(names, api="build", **exc_sig(e)), "building the estimator raised %r" % (e,), dict(step="build"))
        return
    rec.state(B.state_key(est))
    Abar, c0, lo, hi = B.model_of(spec, True)
    m, n = Abar.shape
    surplus = n - m
    T, ext = _targets(Abar, c0, lo, hi)
    delta = 1e-6 * ext
    rng_ = hi - lo
    P = np.array([t[1] for t in T])
    margins = O.zono_margin(P, Abar, c0, lo, hi)
    base = dict(names, surplus=surplus)
    try:
        from dreye.api import _verif
    except Exception:  # noqa
        _verif = None
    fit_cache = None
    for idx, (kind, t, xgen) in enumerate(T):
        mg = margins[idx]
        cls = "inside" if mg >= delta else ("outside" if mg <= -delta else "boundary")
        sig = dict(base, target=cls, api="est.range_of_solutions")
        case = dict(target=idx, kind=kind)
        rec.path()
        rec.trans()
        if _verif:
            _verif.drain()
        raised = None
        with warnings.catch_warnings():
            warnings.simplefilter("ignore")
            try:
                res = est.range_of_solutions(t, error="raise")
            except ValueError as e:
                raised = e
            except Exception as e:  # noqa
                _v(rec, "a", dict(sig, mode="raise", **exc_sig(e)), "range_of_solutions raised %r" % (e,), case, script=_script(spec, t))
                rec.outcome("%s/exception" % cls)
                continue
        if _verif:
            ev = [e for e in _verif.drain() if e.get("kind") == "range_candidates"]
            rec.count("candidate-basic-solutions", sum(e["candidates"] for e in ev))
            rec.count("accepted-basic-solutions", sum(e["accepted"] for e in ev))
        if cls == "outside":
            rec.distinct((spec, idx, "outside"))
            if raised is None:
                _v(rec, "e", dict(sig, mode="raise"), "out-of-gamut target (margin %.3g) did not raise" % mg, case, observed=[np.asarray(r) for r in res], script=_script(spec, t))
                rec.outcome("outside/no-raise")
                continue
            rec.outcome("outside/raised")
            # ignore / warn: best fit as both ends
            for mode in ("ignore", "warn"):
                rec.trans()
                with warnings.catch_warnings(record=True) as wl:
                    warnings.simplefilter("always")
                    try:
                        mn, mx = est.range_of_solutions(t, error=mode)
                    except Exception as e:  # noqa
                        _v(rec, "e", dict(sig, mode=mode, **exc_sig(e)), "error=%r raised %r for an out-of-gamut target" % (mode, e), case, script=_script(spec, t, error=mode))
                        continue
                mn, mx = np.asarray(mn, dtype=float), np.asarray(mx, dtype=float)
                opt, xs, _ = O.box_lsq_bounds(Abar, t, lo, hi, c0=c0)
                val = float(np.linalg.norm(Abar @ mn + c0 - t))
                # the solver's accuracy (2e-2) is stated in well-scaled capture units (C04); in another capture unit it scales with the unit
                okv = np.array_equal(mn, mx) and val <= opt + 2e-2 * max(1.0, cu) and np.all(mn >= lo - 0.01 * rng_) and np.all(mn <= hi + 0.01 * rng_)
                if mode == "warn" and not any(issubclass(w.category, RuntimeWarning) for w in wl):
                    _v(rec, "e", dict(sig, mode=mode, what="no-warning"), "error='warn' issued no warning for an out-of-gamut target", case)
                if not okv:
                    _v(rec, "e", dict(sig, mode=mode), "out-of-gamut target: ends are not the best fit (residual %.4g vs optimum %.4g, equal ends %s)" % (val, opt, np.array_equal(mn, mx)),
                       case, observed=dict(min=mn, max=mx), expected=dict(x=xs, residual=opt), script=_script(spec, t, error=mode))
            continue
        # in gamut (inside or boundary)
        V = O.poly_vertices(Abar, t - c0, lo, hi, tol=1e-9)
        if cls == "boundary":
            V11 = O.poly_vertices(Abar, t - c0, lo, hi, tol=1e-11)
            V7 = O.poly_vertices(Abar, t - c0, lo, hi, tol=1e-7)
            unamb = len(V11) > 0 and len(V11) == len(V7) and np.allclose(V11.min(0), V7.min(0), atol=1e-9) and np.allclose(V11.max(0), V7.max(0), atol=1e-9)
        else:
            unamb = True
        if raised is not None:
            if cls == "inside":
                _v(rec, "a", dict(sig, mode="raise", what="raised"), "target strictly inside the gamut (margin %.3g) raised %r" % (mg, raised), case, script=_script(spec, t))
                rec.outcome("inside/raised")
                continue
            # boundary target judged outside by the library: allowed; the fallback must return the best fit
            rec.outcome("boundary/raised")
            rec.trans()
            try:
                mn, mx = est.range_of_solutions(t, error="ignore")
                mn, mx = np.asarray(mn, dtype=float), np.asarray(mx, dtype=float)
                val = float(np.linalg.norm(Abar @ mn + c0 - t))
                if not (np.array_equal(mn, mx) and val <= 2e-2 * max(1.0, cu)):
                    _v(rec, "e", dict(sig, mode="ignore", target="boundary"), "boundary target taken as outside: fallback is not the best fit (residual %.3g)" % val, case, observed=dict(min=mn, max=mx))
            except Exception as e:  # noqa
                _v(rec, "e", dict(sig, mode="ignore", **exc_sig(e)), "error='ignore' raised %r" % (e,), case)
            continue
        mn, mx = np.asarray(res[0], dtype=float), np.asarray(res[1], dtype=float)
        if len(V) == 0:
            rec.outcome("%s/oracle-empty" % cls)
            continue
        omin, omax = V.min(0), V.max(0)
        posdim = bool(np.any(omax - omin > 1e-6 * rng_))
        if posdim or cls == "boundary":
            rec.distinct((spec, idx, "range"))
        tol = (1e-7 if cls == "inside" else 1e-6) * rng_
        bad = []
        if np.any(mn > mx + 1e-9):
            bad.append("min > max")
        if np.any(mn < lo - 1e-9) or np.any(mx > hi + 1e-9):
            bad.append("outside the bounds")
        if xgen is not None and (np.any(xgen < mn - 1e-7 * rng_) or np.any(xgen > mx + 1e-7 * rng_)):
            bad.append("generating intensities not within [min, max]")
        if unamb and (np.any(np.abs(mn - omin) > tol) or np.any(np.abs(mx - omax) > tol)):
            bad.append("extents differ from the polytope's")
        rec.outcome("%s/%s" % (cls, "exact" if not bad else "wrong"))
        if bad:
            _v(rec, "a" if cls == "inside" else "b", dict(sig, mode="raise", what=bad[0]), "range of solutions: %s" % "; ".join(bad), case,
               observed=dict(min=mn, max=mx), expected=dict(min=omin, max=omax, margin=mg, target=t, x=xgen), script=_script(spec, t))
            continue
        # c: the fitted solution lies between the ends
        # (fits are claimed for well-scaled capture units only (C04): not asserted for the systems in other capture units)
        if cls == "inside" and idx % 3 == 0 and "capture_unit" not in names:
            rec.trans()
            try:
                Xf, _ = est.fit(t[None])
                xf = np.asarray(Xf)[0]
                if np.any(xf < mn - 0.01 * rng_ - 2e-2) or np.any(xf > mx + 0.01 * rng_ + 2e-2):
                    _v(rec, "c", sig, "fitted intensities lie outside the reported range of solutions", case, observed=xf, expected=dict(min=mn, max=mx))
            except Exception as e:  # noqa
                _v(rec, "c", dict(sig, **exc_sig(e)), "fit raised %r" % (e,), case)
        # d: spaced solutions
        if cls == "inside" and posdim and (tier != "quick" or idx % 3 == 0):
            nlist = (2, 3, 5, 10) if surplus == 1 else ((2, 3) if surplus == 2 else (2,))
            if idx % 2:
                nlist = nlist[:2]
            for nn in nlist:
                rec.trans()
                rec.path()
                try:
                    r3 = est.range_of_solutions(t, n=nn)
                    Xs = np.asarray(r3[2], dtype=float)
                except Exception as e:  # noqa
                    _v(rec, "d", dict(sig, n=nn, **exc_sig(e)), "range_of_solutions(n=%d) raised %r" % (nn, e), case, script=_script(spec, t, n=nn))
                    continue
                rec.distinct((spec, idx, "spaced", nn))
                bad = []
                # the reported extent does not depend on whether spaced solutions were requested as well
                if not (np.array_equal(np.asarray(r3[0], dtype=float).reshape(-1), mn.reshape(-1)) and np.array_equal(np.asarray(r3[1], dtype=float).reshape(-1), mx.reshape(-1))):
                    bad.append("the reported minima / maxima change when n spaced solutions are requested (max dev %.3g)" % max(np.max(np.abs(np.asarray(r3[0], dtype=float).reshape(-1) - mn.reshape(-1))), np.max(np.abs(np.asarray(r3[1], dtype=float).reshape(-1) - mx.reshape(-1)))))
                if Xs.ndim != 2 or Xs.shape[1] != n or Xs.shape[0] < 1:
                    bad.append("wrong shape %s" % (Xs.shape,))
                else:
                    if surplus == 1 and Xs.shape[0] != nn:
                        bad.append("%d solutions instead of %d" % (Xs.shape[0], nn))
                    if np.any(Xs < lo - 1e-9 * np.maximum(1, rng_)) or np.any(Xs > hi + 1e-9 * np.maximum(1, rng_)):
                        bad.append("a spaced solution violates the bounds")
                    resid = np.max(np.abs(Xs @ Abar.T + c0 - t))
                    if resid > 1e-6 * max(1.0, ext):
                        bad.append("a spaced solution does not reproduce the target (max dev %.3g)" % resid)
                rec.outcome("spaced/%s" % ("ok" if not bad else "bad"))
                if bad:
                    _v(rec, "d", dict(sig, n=("n" if surplus == 1 else "n/surplus>1"), what=bad[0][:30]), "spaced solutions: %s" % "; ".join(bad), dict(case, n=nn),
                       observed=Xs[:4], expected=dict(target=t, lb=lo, ub=hi), script=_script(spec, t, n=nn))
    # module-level function on a batch of interior targets, against the estimator's answers
    import dreye

    inside = [i for i in range(len(T)) if margins[i] >= 1e-3 * ext][:6]
    if inside:

        rec.trans(2)
        rec.path()
        try:
            Pm = P[inside]
            kw = dict(lb=B.arr(spec["lb"]), ub=B.arr(spec["ub"]))
            if spec["K"] is not None:
                kw["K"] = np.atleast_1d(B.arr(spec["K"]))
            if spec["baseline"] is not None:
                kw["baseline"] = np.atleast_1d(B.arr(spec["baseline"]))
            lo_, hi_ = O.bounds_arrays(kw["lb"], kw["ub"], n)
            mn, mx = dreye.range_of_solutions(Pm, np.array(spec["A"]), lo_, hi_, K=kw.get("K"), baseline=kw.get("baseline"))
            mn2, mx2 = est.range_of_solutions(Pm)
            for j, i in enumerate(inside):
                V = O.poly_vertices(Abar, P[i] - c0, lo, hi)
                if len(V) and (np.any(np.abs(mn[j] - V.min(0)) > 1e-7 * rng_) or np.any(np.abs(mx[j] - V.max(0)) > 1e-7 * rng_) or not np.array_equal(mn[j], mn2[j]) or not np.array_equal(mx[j], mx2[j])):
                    _v(rec, "a", dict(base, target="inside", api="dreye.range_of_solutions", mode="batch"), "batched / module-level range of solutions differs from the polytope extents", dict(batch=inside, row=j),
                       observed=dict(min=mn[j], max=mx[j]), expected=dict(min=V.min(0), max=V.max(0)))
            rec.outcome("batch/ok")
        except Exception as e:  # noqa
            _v(rec, "a", dict(base, api="dreye.range_of_solutions", mode="batch", **exc_sig(e)), "module-level range_of_solutions raised %r" % (e,), dict(batch=inside))
        # integer-typed bounds (np.array([0, 0, 0]), np.array([2, 3, 2])): a larger box around the same targets
        rec.trans(3)
        rec.path()
        try:
            ilo = np.floor(lo).astype(np.int64)
            ihi = (np.ceil(hi) + 1 + (np.arange(n) % 2)).astype(np.int64)
            mn, mx = dreye.range_of_solutions(Pm, np.array(spec["A"]), ilo, ihi, K=kw.get("K"), baseline=kw.get("baseline"))
            est_i = B.make_est(spec, register=False)
            est_i.register_system(B.filters_sources(spec["A"])[1], lb=ilo, ub=ihi)
            mn2, mx2 = est_i.range_of_solutions(Pm)
            flo, fhi = ilo.astype(float), ihi.astype(float)
            for j, i in enumerate(inside):
                V = O.poly_vertices(Abar, P[i] - c0, flo, fhi)
                if len(V) == 0:
                    continue
                rec.distinct((spec, i, "integer-bounds"))
                for tag, a_, b_ in (("dreye.range_of_solutions", mn[j], mx[j]), ("est.range_of_solutions", mn2[j], mx2[j])):
                    if np.any(np.abs(np.asarray(a_, dtype=float) - V.min(0)) > 1e-7 * (fhi - flo)) or np.any(np.abs(np.asarray(b_, dtype=float) - V.max(0)) > 1e-7 * (fhi - flo)):
                        _v(rec, "a", dict(base, target="inside", api=tag, mode="integer-bounds"), "range of solutions with integer-typed bounds differs from the polytope extents", dict(batch=inside, row=j),
                           observed=dict(min=a_, max=b_), expected=dict(min=V.min(0), max=V.max(0), lb=ilo, ub=ihi))
                        break
            rec.outcome("integer-bounds/ok")
        except Exception as e:  # noqa
            _v(rec, "a", dict(base, api="dreye.range_of_solutions", mode="integer-bounds", **exc_sig(e)), "range_of_solutions with integer-typed bounds raised %r" % (e,), dict(batch=inside))
    # absolute capture (relative=False): K and baseline play no role
    if spec["K"] is not None or spec["baseline"] is not None:
        Aabs, c0a, _, _ = B.model_of(spec, False)
        rec.trans()
        rec.path()
        xs = np.array([lo + rng_ * (0.3 + 0.05 * ((np.arange(n) + k) % 5)) for k in range(3)])
        Pa = xs @ Aabs.T + c0a
        try:
            mn, mx = est.range_of_solutions(Pa, relative=False)
            for j in range(len(Pa)):
                V = O.poly_vertices(Aabs, Pa[j] - c0a, lo, hi)
                if len(V) == 0:
                    continue
                rec.distinct((spec, j, "absolute"))
                if np.any(np.abs(mn[j] - V.min(0)) > 1e-7 * rng_) or np.any(np.abs(mx[j] - V.max(0)) > 1e-7 * rng_):
                    _v(rec, "a", dict(base, target="inside", api="est.range_of_solutions", mode="relative=False"), "range of solutions for absolute-capture targets differs from the polytope extents", dict(row=j),
                       observed=dict(min=mn[j], max=mx[j]), expected=dict(min=V.min(0), max=V.max(0), x=xs[j]))
                    break
            rec.outcome("absolute/ok")
        except Exception as e:  # noqa
            _v(rec, "a", dict(base, api="est.range_of_solutions", mode="relative=False", **exc_sig(e)), "range_of_solutions(relative=False) raised %r" % (e,), dict(rows=len(Pa)))
    rec.sample(dict(system=names, n_targets=len(T), example=dict(target=T[0][1], kind=T[0][0])), cap=1)
