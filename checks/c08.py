"""
C08 - underdetermined fits reproduce the target and optimise the chosen secondary goal.

Underdetermined systems (2-4 receptors, 1-3 surplus sources) x bounds x K x baseline x in-gamut targets (interior and
near faces) x every option value {'l2','min','max','var', number x3, vector x2} x tolerances 1e-6..1e-3.
Oracle: exhaustive vertex enumeration of the solution polytope; linear objectives are decided on the vertices,
convex quadratic ones by a feasible candidate + convexity certificate over the vertex set.
"""

import numpy as np

from mc import alphabets as AL
from mc import build as B
from mc import oracles as O
from mc.kernel import exc_sig

PROPERTY = "C08"
RULE = "unit = one underdetermined system; paths = fit_underdetermined calls per (target, option, tolerance); non-trivial = targets whose solution polytope has positive dimension; distinct by (system, target, option, tolerance)"
ASSUMPTIONS = ["optimality is asserted one-sidedly against the optimum over the UNRELAXED solution polytope (the fit may use its tolerance l2_eps, so it can only do better)",
               "objective tolerance: 1e-3 x (1 + |optimum|) + effect of l2_eps; reproduction tolerance 1.5 x l2_eps + 2e-7"]
BOUNDS = {"quick": "shapes 2x3 2x4 3x4 3x5 4x5 4x6 x 2-3 matrices; bounds x K x baseline <= 1 deviation (2 for the 'asc' matrix); 4 targets x 9 options (l2_eps = 1e-4) + tolerance menu on one target",
          "thorough": "all 2-4 x 1-3 surplus, <= 2 deviations, 8 targets"}
CAP_S = {"quick": 600, "thorough": 7200}
TECHNIQUE = "all underdetermined systems of the menu x in-gamut target lattice x every option x tolerance menu; optimum over the exhaustively enumerated vertex set of the solution polytope"
LEVEL_TEXT = "every enumerated (system, target, option, tolerance) is fitted with fit_underdetermined; bounds, reproduction within the tolerance, and optimality of the secondary objective over the exactly enumerated solution polytope are decided (one-sided, so a correct implementation can never fail)"
LEVEL_NOTE = "small scope; SLSQP candidate inside the oracle (any feasible candidate gives a valid bound; its certified gap is recorded)"
KE = ("exc", "msg", "option")
KV = ("option", "what", "bounds", "surplus", "eps")

OPTS = ["l2", "min", "max", "var", "num-lo", "num-mid", "num-hi", "vec-mid", "vec-lb", "vec-outside"]


def _v(rec, clause, sig, *a, **k):
    rec.violation(clause, sig, *a, keys=(KE if "exc" in sig else KV), **k)


def units(tier, seed):
    if tier == "quick":
        shapes = [(2, 3), (2, 4), (3, 4), (3, 5), (4, 5), (4, 6)]
    else:
        shapes = [(m, m + s) for m in (2, 3, 4) for s in (1, 2, 3)]
    out = []
    for names, A, (lb, ub), K, bl in AL.systems(shapes, seed=seed, order=2, bounds=["ub-finite", "lb-mixed", "scalar"]):
        dev = sum(names[k] not in ("default", "ub-finite") for k in ("bounds", "K", "baseline"))
        if tier == "quick" and dev > (2 if names["A"] == "asc" else 1):
            continue
        out.append(dict(names=names, spec=B.spec_of(A, lb, ub, K, bl), tier=tier))
    return out


def objective(opt, n, lo, hi):
    """(value for the API, f, grad, sense)"""
    mid = (lo + hi) / 2
    if opt == "l2":
        return "l2", (lambda x: float(x @ x)), (lambda x: 2 * x), "l2"
    if opt == "min":
        return "min", (lambda x: float(np.sum(x))), (lambda x: np.ones(n)), "min"
    if opt == "max":
        return "max", (lambda x: -float(np.sum(x))), (lambda x: -np.ones(n)), "max"
    if opt == "var":
        return "var", (lambda x: float(np.sum((x - x.mean()) ** 2))), (lambda x: 2 * (x - x.mean())), "var"
    if opt.startswith("num"):
        v = {"num-lo": float(np.sum(lo)) - 0.5, "num-mid": float(np.sum(mid)), "num-hi": float(np.sum(hi)) + 1.0}[opt]
        return v, (lambda x: float((np.sum(x) - v) ** 2)), (lambda x: 2 * (np.sum(x) - v) * np.ones(n)), "num"
    if opt == "vec-outside":
        # a requested vector that is itself outside the bounds (legal: the fit must come as close as the bounds allow)
        v = np.where(np.arange(n) % 2 == 0, hi + 0.75, lo - 0.5)
    else:
        v = mid.copy() if opt == "vec-mid" else lo + 0.125
    return v, (lambda x: float(np.sum((x - v) ** 2))), (lambda x: 2 * (x - v)), "vec"


def _script(spec, t, optv, eps):
    o = "np.array(%r)" % (optv.tolist(),) if isinstance(optv, np.ndarray) else repr(optv)
    return B.script_est(spec) + "b = np.array([%r])\nprint(est.fit_underdetermined(b, underdetermined_opt=%s, l2_eps=%r))\n" % (np.asarray(t).tolist(), o, eps)


def run_unit(unit, rec):
    spec, names, tier = unit["spec"], unit["names"], unit["tier"]
    est = B.make_est(spec, rec=rec)
    rec.state(B.state_key(est))
    Abar, c0, lo, hi = B.model_of(spec, True)
    m, n = Abar.shape
    rng_ = hi - lo
    ext = float(np.max(np.abs(Abar) @ rng_))
    base = dict(names, surplus=n - m)
    # in-gamut targets: interior lattice points + near faces
    Xs = [lo + rng_ * (0.3 + 0.05 * np.arange(n)), lo + rng_ * np.where(np.arange(n) % 2 == 0, 0.75, 0.25)]
    T = [("interior", c0 + Abar @ x) for x in Xs]
    for cen, nu in O.zono_facet_points(Abar, c0, lo, hi)[:2]:
        T.append(("near-face", cen - 0.02 * ext * nu))
    if tier != "quick":
        for x in AL.lattice(lo, hi, (0.25, 0.75))[:: max(1, 2 ** n // 4)][:4]:
            T.append(("interior", c0 + Abar @ x))
    for ti, (kind, t) in enumerate(T):
        V = O.poly_vertices(Abar, t - c0, lo, hi)
        if len(V) == 0:
            continue
        posdim = bool(np.any(V.max(0) - V.min(0) > 1e-6 * rng_))
        eps_menu = [1e-4] if ti else [1e-4, 1e-6, 1e-3]
        for opt in OPTS:
            optv, f, grad, kind_o = objective(opt, n, lo, hi)
            xs, fs, low = O.min_over_hull(f, grad, V)
            for eps in (eps_menu if opt in ("min", "l2", "vec-mid") else eps_menu[:1]):
                sig = dict(base, option=opt, eps=str(eps))
                case = dict(target=ti, kind=kind, option=opt, l2_eps=eps)
                rec.path()
                rec.trans()
                try:
                    X, Bp = est.fit_underdetermined(t[None], underdetermined_opt=(np.asarray(optv) if isinstance(optv, np.ndarray) else optv), l2_eps=eps)
                except Exception as e:  # noqa
                    _v(rec, "a", dict(sig, **exc_sig(e)), "fit_underdetermined raised %r" % (e,), case, script=_script(spec, t, optv, eps))
                    rec.outcome("exception")
                    continue
                if posdim:
                    rec.distinct((spec, ti, opt, eps))
                x = np.asarray(X, dtype=float)[0]
                bad = None
                resid = float(np.linalg.norm(Abar @ x + c0 - t))
                if np.any(x < lo - 0.01 * rng_ - 1e-9) or np.any(x > hi + 0.01 * rng_ + 1e-9):
                    bad = ("a", "returned intensities violate the bounds")
                elif np.max(np.abs(np.asarray(Bp)[0] - (Abar @ x + c0))) > 1e-9 * (1 + ext):
                    bad = ("b", "returned prediction is not the model's capture of the returned intensities")
                elif resid > 1.5 * eps + 2e-7:
                    bad = ("b", "target not reproduced within the requested tolerance (residual %.3g, l2_eps %.0e)" % (resid, eps))
                else:
                    # a residual r allows the objective to improve by at most L * r / sigma_min-ish; allow a generous first-order term
                    smin = np.linalg.svd(Abar, compute_uv=False)[-1]
                    slack = np.linalg.norm(grad(xs)) * (resid + 1e-6) / max(smin, 1e-9) + 1e-3 * (1 + abs(fs))
                    val = f(np.clip(x, lo, hi))
                    rec.stat_max("excess_%s" % kind_o, val - fs)
                    if val > fs + slack:
                        bad = ("c", "secondary objective '%s' is %.6g, but a feasible point reaches %.6g" % (opt, val if kind_o != "max" else -val, fs if kind_o != "max" else -fs))
                rec.outcome("%s/%s" % (kind_o, "ok" if bad is None else "bad"))
                rec.stat_max("oracle_gap", fs - low)
                if bad:
                    _v(rec, bad[0], dict(sig, what=bad[1][:40]), bad[1], case, observed=dict(X=x, residual=resid), expected=dict(X=xs, target=t, vertices=V[:6]), script=_script(spec, t, optv, eps))
    # ---- several targets in ONE call: row i of the result belongs to target i (orders whose sorting permutation is not an involution)
    Tall = np.array([t for _, t in T if len(O.poly_vertices(Abar, t - c0, lo, hi))])  # reproducible targets only
    if len(Tall) >= 3:
        order = np.argsort(Tall.sum(1))
        cyc = Tall[[order[1], order[2], order[0]] + [k_ for k_ in order[3:]]]  # totals: middle, high, low, ... (a 3-cycle)
        for optv in ("min", "l2"):
            rec.path()
            rec.trans(1 + len(cyc))
            sig = dict(base, option=optv, eps="1e-4", what="batch-row-assignment")
            try:
                Xb, _ = est.fit_underdetermined(cyc, underdetermined_opt=optv, l2_eps=1e-4)
                Xb = np.asarray(Xb, dtype=float)
                resid = np.max(np.abs(Xb @ Abar.T + c0 - cyc), axis=1)
                okb = Xb.shape == (len(cyc), n) and bool(np.all(resid <= 1e-4 * 1.5 + 2e-7))
            except Exception as e:  # noqa
                _v(rec, "a", dict(sig, **exc_sig(e)), "fit_underdetermined of %d targets in one call raised %r" % (len(cyc), e), dict(option=optv, rows=len(cyc)))
                continue
            rec.outcome("batch-rows/%s" % ("ok" if okb else "bad"))
            if not okb:
                _v(rec, "b", dict(sig), "with %d targets in one call, a result row does not reproduce ITS target (max residual %.3g)" % (len(cyc), float(np.max(resid))), dict(option=optv, rows=len(cyc)), observed=Xb, expected=dict(targets=cyc),
                   script=B.script_est(spec) + "T = np.array(%r)\nX, Bp = est.fit_underdetermined(T, underdetermined_opt=%r, l2_eps=1e-4)\nprint(np.abs(Bp - T).max(1))\n" % (cyc.tolist(), optv))
    rec.sample(dict(system=names, targets=len(T), options=OPTS), cap=1)
