"""
C09 - variance minimisation keeps the fit quality and minimises capture variance.

Systems (underdetermined + exactly determined) x variance model (explicit matrix | 'heteroscedastic' default |
derived from filters_uncertainty) x L1 request (None | scalar | per sample) x K menu (matrix included) x bounds x
in/out-of-gamut targets.  Oracle: vertex enumeration of the set of best-fit intensity vectors (optionally sliced
at the requested total), convex minimum over it by candidate + certificate; exact recomputation of the variances.
"""

import copy
import itertools

import numpy as np

from mc import alphabets as AL
from mc import build as B
from mc import oracles as O
from mc.kernel import exc_sig

PROPERTY = "C09"
RULE = "unit = (system, variance model); paths = minimize_variance calls per (target set, L1 request); non-trivial = targets whose set of best-fit intensities has positive dimension; distinct by (system, variance model, L1, target)"
ASSUMPTIONS = ["optimality asserted one-sidedly against the minimum over the UNRELAXED feasible set (exact best-fit intensities, exact total)", "tolerances: error <= best + l2_eps + 2e-2; |sum x - L1| <= l1_eps + 1e-3; variance <= optimum (1 + 1e-2) + 1e-3"]
BOUNDS = {"quick": "shapes 2x3 2x4 3x4 3x3 4x5 x 2 matrices; bounds x K <= 1 deviation (2 for 'asc'); 3 variance models; 3 L1 requests; 5 targets", "thorough": "more shapes, baseline menu, 2 deviations"}
CAP_S = {"quick": 600, "thorough": 7200}
TECHNIQUE = "all systems x variance models x L1 requests x target lattice; minimum variance over the exhaustively enumerated best-fit polytope; exact variance recomputation"
LEVEL_TEXT = "every enumerated configuration is run through minimize_variance; bounds, fit quality relative to the global least-squares optimum, the requested total, minimality of sum(eps x^2) over the exactly enumerated feasible polytope (one-sided), the comparison with the ordinary fit, the reported variance and the default variance model are decided"
LEVEL_NOTE = "small scope; SLSQP candidate in the oracle (any feasible candidate yields a valid bound)"
KE = ("exc", "msg", "variance", "L1", "K")
KV = ("variance", "what", "L1", "K", "target")


def _v(rec, clause, sig, *a, **k):
    rec.violation(clause, sig, *a, keys=(KE if "exc" in sig else KV), **k)


def units(tier, seed):
    shapes = [(2, 3), (2, 4), (3, 4), (3, 3), (4, 5)] if tier == "quick" else [(2, 3), (2, 4), (2, 5), (3, 4), (3, 5), (3, 3), (4, 4), (4, 5), (4, 6)]
    out = []
    for names, A, (lb, ub), K, bl in AL.systems(shapes, seed=seed, order=2, bounds=["ub-finite", "lb-mixed", "scalar"], baselines=(["default", "vector"] if tier == "quick" else None), seeded=(tier != "quick")):
        dev = sum(names[k] not in ("default", "ub-finite") for k in ("bounds", "K", "baseline"))
        if tier == "quick" and dev > (2 if names["A"] == "asc" else 1):
            continue
        for var in ("default", "explicit", "uncertainty", "uncertainty-draws"):
            if var == "uncertainty-draws" and (tier == "quick" and dev > 0):
                continue  # filter uncertainty given as draws of the filter functions: default options in the quick tier
            out.append(dict(names=names, spec=B.spec_of(A, lb, ub, K, bl), variance=var, tier=tier))
    return out


def own_K2(Eps, K, m):
    """variance propagation through K (squared entries)"""
    if K is None:
        return Eps
    K = np.asarray(K, dtype=float)
    if K.ndim == 0:
        K = np.full(m, float(K))
    if K.ndim == 1:
        return Eps * (K ** 2)[:, None]
    return (K ** 2) @ Eps


def run_unit(unit, rec):
    import dreye

    spec, names, var, tier = unit["spec"], unit["names"], unit["variance"], unit["tier"]
    A = np.asarray(spec["A"], dtype=float)
    m, n = A.shape
    Abar, c0, lo, hi = B.model_of(spec, True)
    rng_ = hi - lo
    ext = float(np.max(np.abs(Abar) @ rng_))
    K = B.arr(spec["K"])
    base = dict(names, variance=var)
    # ---- build the estimator with the requested variance model
    filters, sources = B.filters_sources(A)
    kw = {}
    if spec["K"] is not None:
        kw["K"] = K
    if spec["baseline"] is not None:
        kw["baseline"] = B.arr(spec["baseline"])
    sig_f = None
    Eps_arg = None
    rec.trans(2)
    try:
        if var in ("uncertainty", "uncertainty-draws"):
            # a NON-uniform wavelength axis: the trapezoid weight of interior sample i is (x[i+1] - x[i-1]) / 2; the filters are
            # divided by the weights so that the capture matrix is still exactly A
            steps = np.array([1.0, 0.5, 2.0, 1.5, 0.25, 3.0, 1.0, 0.75, 2.5, 1.25])[: n + 1]
            dom_u = 300.0 + np.concatenate([[0.0], np.cumsum(steps)])
            wts_u = (dom_u[2:] - dom_u[:-2]) / 2.0
            filters = filters.copy()
            filters[:, 1:-1] = filters[:, 1:-1] / wts_u
            sig_f = np.zeros_like(filters)
            sig_f[:, 1:-1] = 0.125 * (1 + (np.arange(m)[:, None] + np.arange(n)[None, :]) % 3)  # std of each filter sample
            if var == "uncertainty-draws":
                # 6 draws of the filter functions around the mean (3-D uncertainty): the variance model is the variance of the draws' captures
                zt = np.array([1.5, -1.0, 0.25, -0.75, 1.0, -1.0])
                draws = filters[None] + sig_f[None] * (zt[:, None, None] * (1.0 + 0.5 * ((np.arange(m)[None, :, None] + np.arange(n + 2)[None, None, :]) % 2)))
                est = dreye.ReceptorEstimator(filters, domain=dom_u, filters_uncertainty=draws, **kw)
            else:
                est = dreye.ReceptorEstimator(filters, domain=dom_u, filters_uncertainty=sig_f, **kw)
        else:
            est = dreye.ReceptorEstimator(filters, domain=1.0, **kw)
        est.register_system(sources, lb=B.arr(spec["lb"]), ub=B.arr(spec["ub"]))
    except Exception as e:  # noqa
        _v(rec, "a", dict(base, L1="-", **exc_sig(e)), "building the estimator raised %r" % (e,), dict(step="build"))
        return
    rec.state(B.state_key(est))
    if var == "default":
        Eps_model = Abar ** 2  # squared (transformed) capture matrix
    elif var == "explicit":
        Eps_arg = 0.0625 * (1.0 + ((np.arange(m)[:, None] * 2 + np.arange(n)[None, :] * 3) % 5))
        Eps_model = own_K2(Eps_arg, K, m)
    else:
        if var == "uncertainty-draws":
            # capture of source k by draw j of filter i = draw[j, i, k] x trapezoid weight: the variance over the draws carries the weight squared
            Eps_model = own_K2(np.var(draws[:, :, 1:-1], axis=0) * wts_u[None, :] ** 2, K, m)
        else:
            # trapezoid integral of sigma^2 * source^2 over the registered domain = sigma^2 x the trapezoid weight of the source's grid point
            Eps_model = own_K2(sig_f[:, 1:-1] ** 2 * wts_u[None, :], K, m)
        if np.max(np.abs(np.asarray(est.A, dtype=float) - A)) > 1e-12 * (1 + np.max(np.abs(A))):
            _v(rec, "a", dict(base, L1="-", what="capture-matrix"), "the capture matrix registered on the non-uniform domain is not the trapezoid integral of filters x sources", dict(step="build"))
            return
    # ---- targets
    Xs = [lo + rng_ * (0.3 + 0.05 * np.arange(n)), lo + rng_ * np.where(np.arange(n) % 2 == 0, 0.7, 0.2), lo + rng_ * 0.5]
    T = [("interior", c0 + Abar @ x) for x in Xs]
    fp = O.zono_facet_points(Abar, c0, lo, hi)
    if fp:
        T.append(("outside", fp[0][0] + 0.15 * ext * fp[0][1]))
        T.append(("outside", fp[-1][0] + 0.3 * ext * fp[-1][1]))
    P = np.array([t[1] for t in T])
    # admissible totals: inside the range of totals over the set of best-fit intensity vectors of each target
    adm = []
    for kind, t in T:
        _, xb0, _ = O.box_lsq_bounds(Abar, t, lo, hi, c0=c0)
        V0 = O.poly_vertices(Abar, Abar @ xb0, lo, hi) if n > m else xb0[None]
        if len(V0) == 0:
            V0 = xb0[None]
        tot = V0.sum(1)
        adm.append(float(tot.min() + 0.4 * (tot.max() - tot.min())))
    adm = np.array(adm)
    P_all = P
    first_default = None
    # per-sample receptor weights registered with the targets (not those given to the constructor): strongly non-uniform, different per row
    Wreg = np.array([np.roll(np.array([3.0, 0.4, 1.5, 0.6, 2.0][:m]), k) for k in range(len(T))])
    for L1name, L1 in (("none", None), ("per-sample", adm), ("scalar", float(adm[0])), ("per-sample/batch2", adm), ("none/registered-weights", None), ("none/batch3", None), ("per-sample/wide-band", adm)):
        P = P_all if L1name != "scalar" else P_all[:1]
        T_run = T if L1name != "scalar" else T[:1]
        sig = dict(base, L1=L1name)
        case = dict(L1=L1name)
        rec.path()
        rec.trans()
        kwargs = {}
        if Eps_arg is not None:
            kwargs["Epsilon"] = Eps_arg
        if L1 is not None:
            kwargs["L1"] = L1
        wide = L1name.endswith("wide-band")
        band = 0.0
        if wide:
            # the requested total may be missed by l1_eps (here 10 % of the smallest requested total), much more than l2_eps
            band = 0.1 * float(np.min(adm))
            kwargs["l1_eps"] = band
            kwargs["solver"] = "CLARABEL"
        if L1name.endswith("batch3"):
            # five targets in batches of three: the last batch holds two real samples and one padded sample
            kwargs["batch_size"] = 3
            kwargs["solver"] = "CLARABEL"
        if L1name.endswith("batch2"):
            kwargs["batch_size"] = 2
            # accurate first stage: with the default first-order solver the attainable error of the padded batch is only
            # known to ~1e-4, the same size as l2_eps, which makes the second stage marginally infeasible now and then
            kwargs["solver"] = "CLARABEL"
        wreg = L1name.endswith("registered-weights")
        try:
            if wreg:
                kwargs["solver"] = "CLARABEL"
                est_w = copy.deepcopy(est)
                est_w.register_targets(P, Wreg)
                est_w.minimize_variance(**kwargs)
                X, Bp, Bv = est_w.X, est_w.B, est_w.Bvar
            else:
                X, Bp, Bv = est.minimize_variance(P, **kwargs)
        except Exception as e:  # noqa
            _v(rec, "a", dict(sig, **exc_sig(e)), "minimize_variance raised %r" % (e,), case,
               script=B.script_est(spec) + "P = np.array(%r)\nprint(est.minimize_variance(P%s))\n" % (P.tolist(), "" if L1 is None else ", L1=%r" % (np.asarray(L1).tolist(),)))
            rec.outcome("exception")
            continue
        X, Bp, Bv = np.asarray(X, dtype=float), np.asarray(Bp, dtype=float), np.asarray(Bv, dtype=float)
        if L1name == "none":
            first_default = (X.copy(), Bv.copy())
        # f/g: reported variance = X^2 @ Eps^T with the model's Eps
        exp_var = X ** 2 @ Eps_model.T
        if Bv.shape != exp_var.shape or np.max(np.abs(Bv - exp_var)) > 1e-10 * (1 + np.max(np.abs(exp_var))):
            _v(rec, "f" if var == "explicit" else "g", dict(sig, what="reported-variance"), "reported capture variance is not the variance model applied to the returned intensities (model: %s)" % var, case,
               observed=Bv[:2], expected=exp_var[:2])
        if np.max(np.abs(Bp - (X @ Abar.T + c0))) > 1e-9 * (1 + ext):
            _v(rec, "f", dict(sig, what="prediction"), "returned prediction is not the model's capture of the returned intensities", case)
        rec.trans()
        try:
            if wreg:
                est_w0 = copy.deepcopy(est)
                est_w0.register_targets(P, Wreg)
                est_w0.fit(solver="CLARABEL")
                X0 = est_w0.X
            else:
                X0, _ = est.fit(P)
            X0 = np.asarray(X0, dtype=float)
        except Exception:  # noqa
            X0 = None
        for idx, (kind, t) in enumerate(T_run):
            x = X[idx]
            s2 = dict(sig, target=kind)
            c2 = dict(case, target=idx)
            eps_row = Eps_model.sum(0)
            fobj = lambda z: float(np.sum(eps_row * z * z))  # noqa
            gobj = lambda z: 2 * eps_row * z  # noqa
            w_i = Wreg[idx] if wreg else None
            opt, xb, _ = O.box_lsq_bounds(Abar, t, lo, hi, c0=c0, w=w_i)
            err = float(np.linalg.norm((Abar @ x + c0 - t) * (1.0 if w_i is None else w_i)))
            bad = None
            l1_i = None if L1 is None else float(np.broadcast_to(L1, (len(T_run),))[idx])
            if np.any(x < lo - 0.01 * rng_ - 1e-9) or np.any(x > hi + 0.01 * rng_ + 1e-9):
                bad = ("a", "returned intensities violate the bounds")
            elif l1_i is None and err > opt + 1e-4 + (2e-3 if wreg else 2e-2):
                bad = ("b", "capture error %.4g exceeds the best achievable error %.4g by more than the tolerance" % (err, opt))
            elif l1_i is not None and abs(np.sum(x) - l1_i) > (band if wide else 1e-2) + 1e-3:
                bad = ("c", "total intensity %.5g does not match the requested %.5g within l1_eps" % (np.sum(x), l1_i))
            else:
                # feasible set of the unrelaxed problem: best-fit intensities (and exact total)
                bfit = Abar @ xb
                G, rhs = Abar, bfit
                if l1_i is not None:
                    G, rhs = np.vstack([Abar, np.ones(n)]), np.concatenate([bfit, [l1_i]])
                if G.shape[0] <= n:
                    V = O.poly_vertices(G, rhs, lo, hi)
                else:
                    V = xb[None] if (l1_i is None or abs(np.sum(xb) - l1_i) <= 1e-9) else np.zeros((0, n))
                if len(V) == 0:
                    rec.outcome("%s/total-incompatible-with-best-fit" % kind)
                else:
                    xs, fs, low = O.min_over_hull(fobj, gobj, V)
                    val = fobj(np.clip(x, lo, hi))
                    posdim = bool(np.any(V.max(0) - V.min(0) > 1e-6 * rng_))
                    if posdim:
                        rec.distinct((spec, var, L1name, idx))
                    rec.stat_max("variance_excess_rel", (val - fs) / (1e-12 + fs))
                    if wide:
                        # any admissible point bounds the optimum from above: also the exact fits whose total sits on either edge of the band
                        for edge in (l1_i - band, l1_i + band):
                            Ve = O.poly_vertices(np.vstack([Abar, np.ones(n)]), np.concatenate([bfit, [edge]]), lo, hi) if Abar.shape[0] + 1 <= n else np.zeros((0, n))
                            if len(Ve):
                                _, fe, _ = O.min_over_hull(fobj, gobj, Ve)
                                fs = min(fs, fe)
                    if val > fs * (1 + 1e-2) + 1e-3:
                        bad = ("d", "summed capture variance %.6g is larger than that of a feasible point %.6g" % (val, fs))
                    elif X0 is not None and l1_i is None and val > fobj(np.clip(X0[idx], lo, hi)) * (1 + 1e-2) + 1e-3:
                        bad = ("e", "summed capture variance %.6g is larger than that of the ordinary fit %.6g" % (val, fobj(X0[idx])))
            rec.outcome("%s/%s" % (kind, "ok" if bad is None else "bad"))
            if bad:
                _v(rec, bad[0], dict(s2, what=bad[1][:40]), bad[1], c2, observed=dict(X=x, error=err), expected=dict(best_fit=xb, best_error=opt, target=t),
                   script=B.script_est(spec) + (("P = np.array([%r])\nW = np.array([%r])\nest.register_targets(P, W)\nest.minimize_variance(solver='CLARABEL')\nprint(est.X, est.B)\n" % (t.tolist(), Wreg[idx].tolist())) if wreg else
                                                ("P = np.array([%r])\nprint(est.minimize_variance(P%s))\n" % (t.tolist(), "" if l1_i is None else ", L1=%r" % l1_i))))
    if var != "explicit" and first_default is not None:
        # history: a call with an explicit variance matrix must not change the estimator's default variance model
        rec.path()
        rec.trans(2)
        E1 = 0.0625 * (1.0 + ((np.arange(m)[:, None] * 2 + np.arange(n)[None, :] * 3) % 5))
        try:
            est.minimize_variance(P_all, Epsilon=E1)
            X2, _, Bv2 = est.minimize_variance(P_all)
            X2, Bv2 = np.asarray(X2, dtype=float), np.asarray(Bv2, dtype=float)
            same = X2.shape == first_default[0].shape and np.max(np.abs(X2 - first_default[0])) <= 1e-7 * np.max(rng_) and np.max(np.abs(Bv2 - first_default[1])) <= 1e-7 * (1 + np.max(np.abs(first_default[1])))
            rec.outcome("history/%s" % ("same" if same else "differs"))
            if not same:
                _v(rec, "g" if var == "default" else "f", dict(base, L1="none", what="history:explicit-Epsilon-then-default"), "minimize_variance() with the default variance model answers differently after a call with an explicit Epsilon", dict(sequence=["minimize_variance(P, Epsilon=E1)", "minimize_variance(P)"]),
                   observed=dict(X=X2[:2], Bvar=Bv2[:2]), expected=dict(X=first_default[0][:2], Bvar=first_default[1][:2]),
                   script=B.script_est(spec) + "P = np.array(%r)\nE1 = np.array(%r)\nprint(est.minimize_variance(P))\nest.minimize_variance(P, Epsilon=E1)\nprint(est.minimize_variance(P))\n" % (P_all.tolist(), E1.tolist()))
        except Exception as e:  # noqa
            _v(rec, "a", dict(base, L1="none", **exc_sig(e)), "minimize_variance raised %r in the sequence explicit Epsilon -> default" % (e,), dict(sequence="explicit->default"))
    if var == "default":
        # the module-level function with Epsilon=None must use the same default (squared transformed capture matrix)
        from dreye.api.optimize.lsq_linear import lsq_linear_minimize

        rec.path()
        rec.trans()
        try:
            Xm, Bm, Vm = lsq_linear_minimize(A, P_all, Epsilon=None, lb=B.arr(spec["lb"]), ub=B.arr(spec["ub"]), K=(None if K is None else np.atleast_1d(K)),
                                             baseline=(None if spec["baseline"] is None else np.atleast_1d(B.arr(spec["baseline"]))), return_pred=True, l2_eps=1e-4)
            Xm, Vm = np.asarray(Xm, dtype=float), np.asarray(Vm, dtype=float)
            expv = Xm ** 2 @ (Abar ** 2).T
            if Vm.shape != expv.shape or np.max(np.abs(Vm - expv)) > 1e-10 * (1 + np.max(np.abs(expv))):
                _v(rec, "g", dict(base, L1="none", what="module-default-variance"), "lsq_linear_minimize(Epsilon=None): reported variance is not X^2 @ ((K A)^2)^T", dict(api="module"), observed=Vm[:2], expected=expv[:2])
            rec.outcome("module-default/ok")
        except Exception as e:  # noqa
            _v(rec, "a", dict(base, L1="none", **exc_sig(e)), "lsq_linear_minimize(Epsilon=None) raised %r" % (e,), dict(api="module"))
    rec.sample(dict(system=names, variance=var, targets=len(T)), cap=1)
