"""
C03 - gamut membership is exact: in-gamut iff reproducible by in-bound intensities.

Systems (shape x A palette x bounds x K x baseline) x {relative, absolute} x {plain, chromatic} x a target
lattice constructed from the gamut's geometry by the oracle side (vertices, edge/face points, facet centroids
+- delta on both sides, strictly-interior intensity lattice, far outside, below baseline, zero).
Oracles: exact zonotope H-representation (signed margin), active-set box least squares (distance),
brute-force hull H-rep for the chromatic plane and for explicit clouds.
"""

import itertools

import numpy as np

from mc import alphabets as AL
from mc import build as B
from mc import oracles as O

PROPERTY = "C03"
KE = ("membership", "geometry", "exc", "K", "baseline", "arg", "step", "api", "dim")  # class keys for crashes
KV = ("membership", "geometry", "target", "clause_of", "capture", "api", "dim")  # class keys for wrong answers
RULE = (
    "unit = one system; every target of the geometric lattice is a path (build calls + in_hull); non-trivial = "
    "targets whose oracle class is decided (strictly inside / strictly outside by >= delta, or strict-interior "
    "intensities), distinct by (system, target); boundary targets (|margin| < delta) are executed and reported only"
)
ASSUMPTIONS = [
    "delta = 1e-6 x gamut extent (stated margin for near-boundary targets)",
    "small scope: receptors <= 4 (quick) / 5 (thorough), sources <= 6 / 8",
    "chromatic membership is only defined for non-negative systems with finite upper bounds (the API refuses the rest)",
]
BOUNDS = {
    "quick": "12 shapes up to 4x6, 2-3 capture matrices each, bounds x K x baseline with <= 2 deviations from default, <= ~250 targets per system; the plain systems again in capture units x1e-4, x1e4",
    "thorough": "all shapes 1..5 x 1..8, full cross product of bounds x K x baseline",
}
CAP_S = {"quick": 600, "thorough": 5400}
TECHNIQUE = "all systems of a shape x matrix x bounds x K x baseline menu crossed with a geometrically constructed target lattice, decided against an exact zonotope H-representation / active-set distance oracle"
LEVEL_TEXT = ("every system of the bounded menu is built through the public API and every target of an oracle-constructed lattice "
              "(vertices, faces, facet centroids +- delta on both sides, strictly-interior intensity lattice, far outside, below baseline) is "
              "sent through in_hull / in_gamut (plain and chromatic, relative and absolute) and dreye.in_hull; answers are compared with an exact "
              "zonotope / cone / brute-force-hull oracle with signed margin, which decides membership for every target outside a 1e-6 boundary layer")
LEVEL_NOTE = "small-scope hypothesis (<= 5 receptors, <= 8 sources); delta = 1e-6 x extent boundary layer is reported, not asserted; numpy linear algebra in the oracle (cross-checked against HiGHS feasibility while building)"


def _v(rec, clause, sig, *a, **k):
    rec.violation(clause, sig, *a, keys=(KE if "exc" in sig else KV), **k)


def units(tier, seed):
    out = []
    plain = {}
    if tier == "quick":
        gen = AL.systems(AL.QUICK_SHAPES, seed=seed, order=2, zeros=True)
    else:
        gen = AL.systems(AL.THOROUGH_SHAPES, seed=seed, cross=True, zeros=True)
    for names, A, (lb, ub), K, bl in gen:
        if names["shape"].startswith("1x"):
            continue  # C03 quantifies over 2-5 receptors
        out.append(dict(kind="system", names=names, spec=B.spec_of(A, lb, ub, K, bl), tier=tier))
        if names["K"] == "default" and names["baseline"] == "default" and names["bounds"] in ("ub-finite", "lb-mixed", "default") and names["A"] in ("asc", "perm"):
            plain.setdefault((names["shape"], names["bounds"]), (names, A, lb, ub))
    # the same plain systems in other units of capture (membership does not depend on the unit)
    for key, (names, A, lb, ub) in sorted(plain.items()):
        for label, sc in (("x1e-4", 1e-4), ("x1e4", 1e4)):
            if tier == "quick" and (key[1] == "default") != (label == "x1e4") and A.shape[1] > 3:
                continue
            out.append(dict(kind="system", names=dict(names, capture_unit=label), spec=B.spec_of(A * sc, lb, ub, None, None), tier=tier))
    # explicit clouds for the module-level dreye.in_hull
    out.append(dict(kind="clouds", dim=2, tier=tier))
    out.append(dict(kind="clouds", dim=3, tier=tier))
    return out


def run_unit(unit, rec):
    if unit["kind"] == "system":
        _run_system(unit, rec)
    else:
        _run_clouds(unit, rec)


# ---------------------------------------------------------------------------


def _targets_plain(Abar, c0, lo, hi, tier):
    """list of (kind, target, generating intensities or None)"""
    m, n = Abar.shape
    T = []
    bounded = bool(np.all(np.isfinite(hi)))
    if bounded:
        extent = float(np.max(np.abs(Abar) @ (hi - lo)))
        centre = c0 + Abar @ ((lo + hi) / 2)
        # (a) lattice images
        if n <= 4:
            X = AL.lattice(lo, hi, (0.0, 0.5, 1.0))
        else:
            X = AL.lattice(lo, hi, (0.0, 1.0))
            if len(X) > 64:
                X = X[:: len(X) // 64]
            extra = [(lo + hi) / 2]
            for k in range(n):
                x = lo.copy()
                x[k] = (lo[k] + hi[k]) / 2
                extra.append(x)
            X = np.vstack([X, extra])
        for x in X:
            T.append(("lattice", c0 + Abar @ x, x))
        # (d-clause) strictly interior intensities
        if n <= 4:
            Xi = AL.lattice(lo, hi, (0.05, 0.5, 0.95))
        else:
            Xi = AL.lattice(lo, hi, (0.05, 0.95))
            if len(Xi) > 64:
                Xi = Xi[:: len(Xi) // 64]
        for x in Xi:
            T.append(("strict-interior", c0 + Abar @ x, x))
        # (b) facets
        for cen, nu in O.zono_facet_points(Abar, c0, lo, hi)[:60]:
            for dl in (1e-6, 1e-5, 1e-2, 0.1):
                T.append(("facet+", cen + dl * extent * nu, None))
                T.append(("facet-", cen - dl * extent * nu, None))
        # (c) far outside
        for x in AL.lattice(lo, hi, (0.0, 1.0))[:8]:
            v = c0 + Abar @ x
            for f in (2.0, 10.0):
                T.append(("far", centre + f * (v - centre) + (1e-3 * extent if np.allclose(v, centre) else 0), None))
    else:
        extent = float(np.max(np.abs(Abar) @ np.ones(n)))
        apex = c0 + Abar @ lo
        lv = (0.05, 1.0, 3.0) if n <= 4 else (0.05, 3.0)
        X = AL.lattice(lo, lo + 1.0, lv)
        if len(X) > 81:
            X = X[:: len(X) // 64]
        for x in X:
            T.append(("strict-interior", c0 + Abar @ x, x))
        # rays and facets of the cone
        for k in range(n):
            T.append(("lattice", apex + Abar[:, k], None))
        T.append(("lattice", apex, None))
        mg = O.cone_margin(apex[None], Abar, apex)
        if mg is not None:
            # perturb points on rays sideways
            for k in range(n):
                for j in range(m):
                    e = np.zeros(m)
                    e[j] = 1.0
                    for dl in (1e-5, 1e-2, 0.3):
                        T.append(("facet+", apex + Abar[:, k] + dl * extent * e, None))
                        T.append(("facet-", apex + Abar[:, k] - dl * extent * e, None))
        T.append(("far", apex - Abar @ np.ones(n), None))
        T.append(("far", apex - 10 * Abar[:, 0], None))
    # (d) below baseline / negative, (e) zero
    T.append(("below-baseline", c0 - 0.5 - 0.25 * np.arange(m), None))
    T.append(("negative", -(c0 + np.abs(Abar) @ np.ones(n)), None))
    T.append(("zero", np.zeros(m), None))
    return T, extent


def _plane_basis(m):
    """orthonormal basis (m-1, m) of the plane sum(x) = const (own construction, Gram-Schmidt)."""
    M = np.eye(m) - 1.0 / m
    q, _ = np.linalg.qr(M[:, : m - 1])
    return q.T


def _script(spec, Bt, relative, normalized):
    return B.script_est(spec) + "B = np.array(%r)\nprint(est.in_hull(B, relative=%r, normalized=%r))\n" % (np.asarray(Bt).tolist(), relative, normalized)


def _run_system(unit, rec):
    spec, names, tier = unit["spec"], unit["names"], unit["tier"]
    base_sig = dict(names)
    try:
        est = B.make_est(spec, rec=rec)
    except Exception as e:  # noqa
        _v(rec, "e", dict(base_sig, step="build", exc=type(e).__name__), "building the estimator raised %r" % (e,), dict(step="build"), script=B.script_est(spec))
        return
    rec.state(B.state_key(est))
    # absolute capture ignores K and baseline: it is explored for the default system and for one system in which K and
    # baseline are both non-trivial (so that using the wrong capture kind is visible)
    variants = [True, False] if ((names["K"] == "default" and names["baseline"] == "default") or (names["K"] == "vector" and names["baseline"] != "default")) else [True]
    for relative in variants:
        Abar, c0, lo, hi = B.model_of(spec, relative)
        m, n = Abar.shape
        bounded = bool(np.all(np.isfinite(hi)))
        T, extent = _targets_plain(Abar, c0, lo, hi, tier)
        delta = 1e-6 * extent
        P = np.array([t[1] for t in T])
        margins = O.zono_margin(P, Abar, c0, lo, hi) if bounded else O.cone_margin(P, Abar, c0 + Abar @ lo)
        fulldim = margins is not None
        sig = dict(base_sig, capture="relative" if relative else "absolute", membership="plain",
                   geometry=("bounded-fulldim" if fulldim else "bounded-flat") if bounded else ("cone-fulldim" if fulldim else "cone-flat"))
        rec.path()
        rec.trans()
        try:
            ans = np.asarray(est.in_hull(P, relative=relative))
            err = None
        except Exception as e:  # noqa
            ans, err = None, e
        if err is not None or ans.shape != (len(T),):
            _v(rec, "e", dict(sig, exc=type(err).__name__ if err else "shape"), "in_hull raised %r" % (err,), dict(relative=relative, membership="plain"),
                          script=_script(spec, P[:3], relative, False))
            rec.outcome("exception")
        else:
            for idx, ((kind, t, x), a) in enumerate(zip(T, ans)):
                case = dict(relative=relative, membership="plain", target=idx, kind=kind)
                mg = margins[idx] if fulldim else None
                cls = None
                if kind == "strict-interior":
                    cls = "strict-interior"
                    rec.distinct((spec, relative, idx))
                    if not a:
                        _v(rec, "d", dict(sig, target=kind), "a capture produced by intensities strictly inside the bounds is reported out of gamut",
                                      case, observed=bool(a), expected=dict(target=t, x=x, margin=mg), script=_script(spec, [t], relative, False))
                elif fulldim and bounded and mg >= delta:
                    cls = "inside"
                    rec.distinct((spec, relative, idx))
                    if not a:
                        _v(rec, "a", dict(sig, target=kind), "target strictly inside the gamut (margin %.3g, extent %.3g) rejected" % (mg, extent),
                                      case, observed=bool(a), expected=dict(target=t, margin=mg), script=_script(spec, [t], relative, False))
                elif fulldim and mg <= -delta:
                    cls = "outside"
                    rec.distinct((spec, relative, idx))
                    if a and bounded:
                        _v(rec, "b", dict(sig, target=kind), "target strictly outside the gamut (margin %.3g, extent %.3g) accepted" % (mg, extent),
                                      case, observed=bool(a), expected=dict(target=t, margin=mg), script=_script(spec, [t], relative, False))
                else:
                    cls = "boundary" if fulldim else "flat"
                if a and kind != "strict-interior":
                    # accepted => reproducible (any configuration)
                    if fulldim and mg is not None and mg >= -delta:
                        dist = 0.0
                    else:
                        dist = O.box_lsq_bounds(Abar, t, lo, hi, c0=c0, max_enum=7)[2]  # rigorous LOWER bound of the distance
                    if dist > delta:
                        _v(rec, "c", dict(sig, target=kind), "target accepted although no in-bound intensities reproduce it (distance %.3g, extent %.3g)" % (dist, extent),
                                      case, observed=True, expected=dict(target=t, distance=dist), script=_script(spec, [t], relative, False))
                rec.outcome("%s/%s" % (cls, "accepted" if a else "rejected"))
            # single-row calls must agree with the batch answer
            decided = [i for i in range(len(T)) if T[i][0] == "strict-interior" or (fulldim and abs(margins[i]) >= delta)]
            # (boundary targets may legitimately be answered either way, also differently from call to call: qhull's point
            #  location starts its walk from the previous query's simplex)
            for idx in (decided[:1] + decided[len(decided) // 2 : len(decided) // 2 + 1] + decided[-1:]):
                rec.path()
                rec.trans()
                try:
                    a1 = est.in_hull(P[idx], relative=relative)
                    if bool(np.all(a1)) != bool(ans[idx]) or np.ndim(a1) != 0:
                        _v(rec, "e", dict(sig, exc="row-vs-batch"), "1-D target gives a different answer than the same row in a batch", dict(relative=relative, membership="plain", target=idx, single=True),
                                      observed=jsonable_bool(a1), expected=bool(ans[idx]))
                except Exception as e:  # noqa
                    _v(rec, "e", dict(sig, exc=type(e).__name__, arg="1-D target"), "in_hull on a 1-D target raised %r" % (e,), dict(relative=relative, membership="plain", target=idx, single=True))
            # integer-typed targets (pixel counts): the answers are those of the same numbers as floats
            rec.trans(2)
            rec.path()
            try:
                Ti = np.unique(np.round(P[np.all(np.abs(P) < 1e6, axis=1)]).astype(np.int64), axis=0)[:40]
                ai, af = np.asarray(est.in_hull(Ti, relative=relative)), np.asarray(est.in_hull(Ti.astype(float), relative=relative))
                rec.outcome("int-typed/%s" % ("same" if np.array_equal(ai, af) else "differs"))
                if not np.array_equal(ai, af):
                    _v(rec, "e", dict(sig, exc="int-vs-float"), "integer-typed targets are answered differently from the same values as floats", dict(relative=relative, membership="plain", dtype="int"),
                       observed=ai.tolist(), expected=af.tolist(), script=_script(spec, Ti, relative, False))
            except Exception as e:  # noqa
                _v(rec, "e", dict(sig, exc=type(e).__name__, arg="int targets"), "in_hull on integer-typed targets raised %r" % (e,), dict(relative=relative, membership="plain", dtype="int"))
            # in_gamut alias
            rec.trans()
            try:
                dsel = np.array(decided[:5], dtype=int)
                a2 = np.asarray(est.in_gamut(P[dsel], relative=relative)) if len(dsel) else np.zeros(0, dtype=bool)
                if not np.array_equal(a2, ans[dsel]):
                    _v(rec, "e", dict(sig, exc="alias"), "in_gamut differs from in_hull", dict(relative=relative, alias=True))
            except Exception as e:  # noqa
                _v(rec, "e", dict(sig, exc=type(e).__name__, arg="alias"), "in_gamut raised %r" % (e,), dict(relative=relative, alias=True))
        rec.sample(dict(system=names, relative=relative, n_targets=len(T), first_target=T[0][1], geometry=sig["geometry"]), cap=1)

        # ------------------------------------------------------------------ chromatic
        if not bounded or np.any(Abar < 0) or np.any(c0 < 0) or m > 4:
            continue
        V = c0 + AL.lattice(lo, hi, (0.0, 1.0)) @ Abar.T
        V = V[V.sum(1) > 0]
        if len(V) == 0 or len(V) > 64:
            continue
        Bas = _plane_basis(m)
        Vn = V / V.sum(1, keepdims=True)
        Y = (Vn - 1.0 / m) @ Bas.T
        hr = O.hull_hrep(Y) if m >= 2 else None
        csig = dict(base_sig, capture="relative" if relative else "absolute", membership="chromatic",
                    geometry="chroma-fulldim" if hr is not None else "chroma-flat", receptors=m)
        CT = []  # (kind, target, plane coords)
        Xi = AL.lattice(lo, hi, (0.05, 0.5, 0.95)) if n <= 3 else AL.lattice(lo, hi, (0.05, 0.95))[:32]
        for x in Xi:
            t = c0 + Abar @ x
            for f in (0.5, 1.0, 3.0):
                CT.append(("strict-interior", f * t))
        if hr is not None:
            N, off = hr
            for nu, o in zip(N, off):
                on = np.abs(Y @ nu + o) <= 1e-9
                cen = Y[on].mean(0)
                for dl in (1e-6, 1e-4, 1e-2):
                    for sgn, kind in ((1, "facet+"), (-1, "facet-")):
                        y = cen + sgn * dl * nu
                        q = 1.0 / m + y @ Bas
                        if np.any(q < 0):
                            continue  # chromaticities are defined for non-negative captures only
                        for f in (1.0, 5.0):
                            CT.append((kind, f * q))
        for v in V[:8]:
            CT.append(("vertex", v))
        CP = np.array([c[1] for c in CT])
        ok_rows = CP.sum(1) > 0
        Yq = (CP / np.where(ok_rows, CP.sum(1), 1.0)[:, None] - 1.0 / m) @ Bas.T
        cm = O.hull_margin(Y, Yq) if hr is not None else None
        rec.path()
        rec.trans()
        try:
            ans = np.asarray(est.in_hull(CP, relative=relative, normalized=True))
            err = None
        except Exception as e:  # noqa
            ans, err = None, e
        if err is not None or ans.shape != (len(CT),):
            _v(rec, "f", dict(csig, exc=type(err).__name__ if err else "shape"), "chromatic in_hull raised %r" % (err,), dict(relative=relative, membership="chromatic"),
                          script=_script(spec, CP[:3], relative, True))
            rec.outcome("chromatic-exception")
            continue
        dc = 1e-6
        for idx, ((kind, t), a) in enumerate(zip(CT, ans)):
            case = dict(relative=relative, membership="chromatic", target=idx, kind=kind)
            if kind == "strict-interior":
                rec.distinct((spec, relative, "c", idx))
                cls = "strict-interior"
                if not a:
                    _v(rec, "f", dict(csig, clause_of="d", target=kind), "a multiple of a capture produced strictly inside the bounds is reported outside the chromatic gamut",
                                  case, observed=bool(a), expected=dict(target=t), script=_script(spec, [t], relative, True))
            elif cm is not None and cm[idx] >= dc:
                cls = "inside"
                rec.distinct((spec, relative, "c", idx))
                if not a:
                    _v(rec, "f", dict(csig, clause_of="a", target=kind), "chromaticity strictly inside the chromatic gamut (margin %.3g) rejected" % cm[idx],
                                  case, observed=bool(a), expected=dict(target=t, margin=cm[idx]), script=_script(spec, [t], relative, True))
            elif cm is not None and cm[idx] <= -dc:
                cls = "outside"
                rec.distinct((spec, relative, "c", idx))
                if a:
                    _v(rec, "f", dict(csig, clause_of="b", target=kind), "chromaticity strictly outside the chromatic gamut (margin %.3g) accepted" % cm[idx],
                                  case, observed=bool(a), expected=dict(target=t, margin=cm[idx]), script=_script(spec, [t], relative, True))
            else:
                cls = "boundary" if cm is not None else "flat"
                if a and cm is None:
                    dist = O.hull_dist(Y, Yq[idx])
                    if dist > dc:
                        _v(rec, "f", dict(csig, clause_of="c", target=kind), "chromaticity accepted although it is at distance %.3g from the chromatic gamut" % dist,
                                      case, observed=True, expected=dict(target=t, distance=dist), script=_script(spec, [t], relative, True))
            rec.outcome("chromatic-%s/%s" % (cls, "accepted" if a else "rejected"))


def jsonable_bool(a):
    try:
        return np.asarray(a).tolist()
    except Exception:  # noqa
        return repr(a)


# ---------------------------------------------------------------------------
# module-level dreye.in_hull on explicit clouds


def _run_clouds(unit, rec):
    import dreye

    d, tier = unit["dim"], unit["tier"]
    if d == 2:
        base = [np.array(p, dtype=float) for p in itertools.product(range(3), repeat=2)]
        sizes = (3, 4, 5) if tier == "quick" else (3, 4, 5, 6)
        qs = np.array(list(itertools.product(np.arange(-1, 3.01, 0.5), repeat=2)))
    else:
        base = [np.array(p, dtype=float) for p in itertools.product(range(2), repeat=3)] + [np.array([0.5, 0.5, 0.5])]
        sizes = (4, 5) if tier == "quick" else (4, 5, 6, 7)
        qs = np.array(list(itertools.product(np.arange(-0.5, 1.51, 0.5), repeat=3)))
    # generic (non-lattice) queries as well
    qs = np.vstack([qs, qs[::3] * 0.93 + 0.071])
    for size in sizes:
        for S in itertools.combinations(range(len(base)), size):
            P = np.array([base[i] for i in S])
            hr = O.hull_hrep(P)
            sig = dict(api="dreye.in_hull", dim=d, geometry="fulldim" if hr is not None else "flat")
            if hr is None:
                # flat clouds go through the fallback (one QP per query): a reduced query set
                Q = qs[:: max(1, len(qs) // 12)]
            else:
                Q = qs
            rec.path()
            rec.trans()
            rec.state(("cloud", d, S))
            try:
                ans = np.asarray(dreye.in_hull(P, Q))
            except Exception as e:  # noqa
                _v(rec, "g", dict(sig, exc=type(e).__name__), "dreye.in_hull raised %r" % (e,), dict(cloud=list(S)),
                              script="import numpy as np, dreye\nprint(dreye.in_hull(np.array(%r), np.array(%r)))\n" % (P.tolist(), Q[:3].tolist()))
                rec.outcome("cloud-exception")
                continue
            if sum(S) % 5 == 0:
                # the exact combination routine on a batch: every row's weights, residual and verdict are those of the same target alone
                # (cloud and targets in a unit in which the largest coordinate is not 1)
                from dreye.api.convex import convex_combination

                Pc, Qc = P * 50.0 + 3.0, Q[:: max(1, len(Q) // 6)][:6] * 50.0 + 3.0
                rec.path()
                rec.trans(1 + len(Qc))
                try:
                    Xb, nb, ib = convex_combination(Pc, Qc)
                    okc = True
                    for j in range(len(Qc)):
                        x1, n1, i1 = convex_combination(Pc, Qc[j])
                        if not (np.allclose(Xb[j], x1, rtol=0, atol=1e-9) and abs(nb[j] - n1) <= 1e-9 * (1 + abs(n1)) and bool(ib[j]) == bool(i1)):
                            okc = False
                            _v(rec, "g", dict(sig, api="convex_combination", target="batch-vs-single"), "convex_combination on a batch differs from the same target alone (residual %.6g vs %.6g)" % (nb[j], n1), dict(cloud=list(S), q=j),
                               observed=dict(norm=nb[j], inside=bool(ib[j])), expected=dict(norm=n1, inside=bool(i1)))
                            break
                    rec.outcome("combination-batch/%s" % ("same" if okc else "differs"))
                except Exception as e:  # noqa
                    _v(rec, "g", dict(sig, api="convex_combination", exc=type(e).__name__), "convex_combination raised %r" % (e,), dict(cloud=list(S)))
            if hr is not None:
                mg = O.hull_margin(P, Q)
                for j, (a, g) in enumerate(zip(ans, mg)):
                    if g >= 1e-6:
                        rec.distinct((d, S, j))
                        rec.outcome("cloud-inside/%s" % ("accepted" if a else "rejected"))
                        if not a:
                            _v(rec, "g", dict(sig, target="inside"), "point strictly inside the hull rejected", dict(cloud=list(S), q=j), observed=bool(a), expected=dict(P=P, q=Q[j], margin=g),
                                          script="import numpy as np, dreye\nprint(dreye.in_hull(np.array(%r), np.array(%r)))\n" % (P.tolist(), [Q[j].tolist()]))
                    elif g <= -1e-6:
                        rec.distinct((d, S, j))
                        rec.outcome("cloud-outside/%s" % ("accepted" if a else "rejected"))
                        if a:
                            _v(rec, "g", dict(sig, target="outside"), "point strictly outside the hull accepted", dict(cloud=list(S), q=j), observed=bool(a), expected=dict(P=P, q=Q[j], margin=g),
                                          script="import numpy as np, dreye\nprint(dreye.in_hull(np.array(%r), np.array(%r)))\n" % (P.tolist(), [Q[j].tolist()]))
                    else:
                        rec.outcome("cloud-boundary/%s" % ("accepted" if a else "rejected"))
            else:
                for j, a in enumerate(ans):
                    dist = O.hull_dist(P, Q[j])
                    if a and dist > 1e-6:
                        _v(rec, "g", dict(sig, target="outside"), "point at distance %.3g from a flat hull accepted" % dist, dict(cloud=list(S), q=j), observed=True, expected=dict(P=P, q=Q[j]))
                    # relative interior of a flat hull: mean of the points
                    rec.outcome("cloud-flat/%s" % ("accepted" if a else "rejected"))
                rec.trans()
                try:
                    a = dreye.in_hull(P, P.mean(0)[None])
                    rec.distinct((d, S, "mean"))
                    if not np.all(a):
                        _v(rec, "g", dict(sig, target="relative-interior"), "centroid of a flat cloud rejected", dict(cloud=list(S), q="mean"), observed=False, expected=dict(P=P))
                except Exception as e:  # noqa
                    _v(rec, "g", dict(sig, exc=type(e).__name__), "dreye.in_hull raised %r on a flat cloud" % (e,), dict(cloud=list(S), q="mean"))
    rec.sample(dict(api="dreye.in_hull", dim=d, sizes=list(sizes), queries=len(qs)), cap=1)
