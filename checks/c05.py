"""
C05 - rows are fitted independently; the batch size never changes or breaks a result.

ALL row sequences of length 1..L over a palette of 4 distinguishable rows (this contains every permutation,
duplication, drop and append) x ALL batch sizes 1..L+2, 'full', 'total', None x procedure (gaussian, poisson,
excitation, variance minimisation) x configuration (plain | baseline + K + per-sample weights + mixed lower bounds).
Reference model: a row's result is what fitting that row ALONE with batch size one gives.
"""

import contextlib
import io
import itertools
import math

import numpy as np

from mc import alphabets as AL
from mc import build as B
from mc import oracles as O
from mc.kernel import exc_sig

PROPERTY = "C05"
RULE = ("unit = (configuration, procedure, solver, first row); paths = every row sequence starting with that row up to length L x every batch-size setting; "
        "non-trivial = sequences of >= 2 rows or batch size != 1; distinct by (unit, sequence, batch size)")
ASSUMPTIONS = ["row palette: two in-gamut rows, one out-of-gamut row, one row on a gamut face, pairwise >= 0.5 capture units apart",
               "comparison tolerance: 2x the procedure's solver tolerance (4e-2 default solver, 4e-4 with CLARABEL passed through); intensities compared where the optimum is unique"]
BOUNDS = {"quick": "L = 3 (gaussian/poisson/variance), L = 2 (excitation, 1 s per row); batch sizes 1..L+2, full, total, None",
          "thorough": "L = 4 (5 for gaussian), L = 3 excitation"}
CAP_S = {"quick": 600, "thorough": 7200}
TECHNIQUE = "exhaustive enumeration of all row sequences up to length L x all batch sizes x procedures, against a per-row reference model and a batch-event model"
LEVEL_TEXT = ("every sequence of palette rows up to the length bound is fitted under every batch-size setting by each procedure; each result row must equal the reference "
              "(that row fitted alone, batch size 1); the hook's batch-event log must match the boring model (number of batches, padding, each row written once)")
LEVEL_NOTE = "two systems (3x3 unique optimum; 2x3 underdetermined with K, baseline, per-sample weights, mixed lower bounds); excitation explored to a smaller bound because of its cost"
KE = ("exc", "msg", "procedure", "batch")
KV = ("procedure", "batch", "config", "what", "solver", "layout")


def _v(rec, clause, sig, *a, **k):
    rec.violation(clause, sig, *a, keys=(KE if "exc" in sig else KV), **k)


CONFIGS = {
    "plain": dict(shape=(3, 3), bounds="ub-finite", K=None, baseline=None, W=False),
    "full": dict(shape=(2, 3), bounds="lb-mixed", K="vector", baseline="vector", W=True),
    # module-level functions with the documented string option W="inverse" (weights 1/target, per sample)
    "inverse": dict(shape=(2, 2), bounds="ub-finite", K=None, baseline="scalar", W="inverse"),
}
PROCS = ["gaussian", "poisson", "minvar", "minvar-L1", "minvar-scalar-norm", "excitation"]
_SCALAR_NORM = [0.0]  # the user-supplied residual norm (one number for all rows) of the procedure "minvar-scalar-norm"
SOLVERS = {"default": {}, "clarabel": dict(solver="CLARABEL")}


def _spec(cfg):
    c = CONFIGS[cfg]
    m, n = c["shape"]
    A = AL.A_palette(m, n, seeded=False)[-1][1]
    bm = {b[0]: b for b in AL.bounds_menu(n)}[c["bounds"]]
    K = None if c["K"] is None else dict(AL.K_menu(m))[c["K"]]
    bl = None if c["baseline"] is None else dict(AL.baseline_menu(m))[c["baseline"]]
    return B.spec_of(A, bm[1], bm[2], K, bl)


def _palette(spec):
    """4 rows: two in gamut, one outside, one on a face; plus a per-sample weight row each."""
    Abar, c0, lo, hi = B.model_of(spec)
    m, n = Abar.shape
    ext = float(np.max(np.abs(Abar) @ (hi - lo)))
    r0 = c0 + Abar @ (lo + 0.3 * (hi - lo))
    r1 = c0 + Abar @ (lo + (hi - lo) * (0.8 - 0.15 * np.arange(n)))
    fp = O.zono_facet_points(Abar, c0, lo, hi)
    cen, nu = max(fp, key=lambda t: t[0].min())  # a facet with non-negative centroid (poisson needs targets >= 0)
    r2 = cen + 0.15 * ext * nu  # outside
    r3 = c0 + Abar @ np.where(np.arange(n) % 2 == 0, hi, lo + 0.5 * (hi - lo))  # on a face / edge
    if np.any(lo > 0):
        # a "dark" row: exactly the transformed baseline (its optimum is x = lb, not x = 0)
        r0 = c0.copy()
    rows = np.array([r0, r1, np.maximum(r2, 0.05), r3])
    W = np.array([[1.0, 2.0, 0.5][:m], [2.0, 1.0, 1.5][:m], [0.5, 0.75, 2.0][:m], [1.5, 0.5, 1.0][:m]])
    return rows, W


def units(tier, seed):
    out = []
    for cfg in CONFIGS:
        for proc in PROCS:
            if cfg == "inverse" and proc in ("excitation", "minvar", "minvar-L1", "minvar-scalar-norm"):
                continue
            if proc == "minvar-scalar-norm" and cfg != "plain":
                continue
            if proc == "excitation":
                L = 2 if tier == "quick" else 3
                solvers = ["default"]
            else:
                L = 3 if tier == "quick" else (5 if proc == "gaussian" else 4)
                solvers = ["clarabel", "default"] if proc not in ("poisson", "minvar-L1", "minvar-scalar-norm") else (["default"] if proc == "poisson" else ["clarabel"])
            for sol in solvers:
                if sol == "default" and proc in ("gaussian", "minvar") and tier == "quick":
                    Lq = 2
                else:
                    Lq = L
                for first in range(4):
                    if proc == "excitation":
                        # 1 s per row: split further so that all cores are used
                        for second in range(-1, 4):
                            out.append(dict(config=cfg, procedure=proc, solver=sol, first=first, second=second, L=Lq, tier=tier))
                    else:
                        out.append(dict(config=cfg, procedure=proc, solver=sol, first=first, L=Lq, tier=tier))
    # variance minimisation with a requested total on a system WITHOUT upper bounds (the documented default), every batch size
    out.append(dict(kind="unbounded-L1", config="unbounded", procedure="minvar-L1", solver="clarabel", first=0, L=3, tier=tier))
    out.sort(key=lambda u: 0 if u["procedure"] == "excitation" else 1)  # slow units first
    return out


def _call(est, proc, rows, W, bs, okw, use_W, L1=None):
    """returns (X, Bp)"""
    kw = dict(okw)
    if proc == "minvar-L1":
        proc = "minvar"
        if L1 is not None:
            kw["L1"] = np.asarray(L1, dtype=float)
    if proc == "minvar-scalar-norm":
        proc = "minvar"
        kw["norm"] = _SCALAR_NORM[0]
    if bs != "omit":
        kw["batch_size"] = bs
    if use_W == "inverse":
        from dreye.api.optimize import lsq_linear as L

        sp = _spec("inverse")
        a = dict(lb=B.arr(sp["lb"]), ub=B.arr(sp["ub"]), W="inverse", K=(None if sp["K"] is None else np.atleast_1d(B.arr(sp["K"]))),
                 baseline=(None if sp["baseline"] is None else np.atleast_1d(B.arr(sp["baseline"]))), return_pred=True)
        Araw = np.array(sp["A"])
        if proc == "minvar":
            X, Bp, _ = L.lsq_linear_minimize(Araw, rows, **a, **kw)
        elif proc == "excitation":
            X, Bp = L.lsq_linear_excitation(Araw, rows, **a, **kw)
        else:
            X, Bp = L.lsq_linear(Araw, rows, model=proc, **a, **kw)
        return np.asarray(X, dtype=float), np.asarray(Bp, dtype=float)
    if use_W:
        est.register_targets(rows, W)
        if proc == "minvar":
            est.minimize_variance(**kw)
        else:
            est.fit(model=("gaussian" if proc == "gaussian" else proc), **kw)
        return np.asarray(est.X, dtype=float), np.asarray(est.B, dtype=float)
    if proc == "minvar":
        X, Bp, _ = est.minimize_variance(rows, **kw)
    else:
        X, Bp = est.fit(rows, model=proc, **kw)
    return np.asarray(X, dtype=float), np.asarray(Bp, dtype=float)


def _script(spec, proc, rows, W, bs, okw, use_W, L1=None):
    if proc == "minvar-L1":
        proc = "minvar"
        if L1 is not None:
            okw = dict(okw, L1=np.asarray(L1).tolist())
    if proc == "minvar-scalar-norm":
        proc = "minvar"
        okw = dict(okw, norm=_SCALAR_NORM[0])
    s = B.script_est(spec) + "B = np.array(%r)\n" % (np.asarray(rows).tolist(),)
    kw = "".join(", %s=%r" % kv for kv in dict(okw, batch_size=bs).items() if kv[1] != "omit")
    if use_W == "inverse":
        s += "from dreye.api.optimize.lsq_linear import lsq_linear\nprint(lsq_linear(est.A, B, lb=est.lb, ub=est.ub, W='inverse', K=est.K, baseline=est.baseline, return_pred=True, model=%r%s))\n" % (proc if proc != "minvar" else "gaussian", kw)
    elif use_W:
        s += "W = np.array(%r)\nest.register_targets(B, W)\n" % (np.asarray(W).tolist(),)
        s += ("est.minimize_variance(%s)\n" % kw[2:]) if proc == "minvar" else ("est.fit(model=%r%s)\n" % (proc, kw))
        s += "print(est.X, est.B)\n"
    else:
        s += ("print(est.minimize_variance(B%s))\n" % kw) if proc == "minvar" else ("print(est.fit(B, model=%r%s))\n" % (proc, kw))
    return s


def _run_unbounded_L1(unit, rec):
    from dreye.api.optimize.lsq_linear import lsq_linear_minimize

    A = AL.A_palette(2, 4, seeded=False)[0][1]
    n = A.shape[1]
    Xg = np.array([[0.5, 0.25, 0.75, 0.5], [1.0, 0.125, 0.25, 0.75], [0.25, 0.5, 0.5, 0.25], [0.75, 0.75, 0.125, 1.0], [0.4, 0.9, 0.6, 0.2]])
    Ball = Xg @ A.T
    kw0 = dict(lb=np.zeros(n), ub=None, l2_eps=1e-4, l1_eps=1e-2, solver="CLARABEL")
    base = dict(config="unbounded", procedure="minvar-L1", solver="clarabel")
    # admissible totals: 10 % above the totals of the unconstrained minimum-variance solutions
    X0 = np.asarray(lsq_linear_minimize(A, Ball, batch_size=1, **kw0), dtype=float)
    L1 = 1.1 * X0.sum(1)
    for N in (1, 2, 3, 5):
        rec.trans()
        ref = np.asarray(lsq_linear_minimize(A, Ball[:N], L1=L1[:N], batch_size=1, **kw0), dtype=float)
        for bs in list(range(1, N + 3)) + ["full"]:
            eff = N if bs == "full" else bs
            bcls = "bs=1" if eff == 1 else ("bs>n" if eff > N else ("bs|n" if N % eff == 0 else "bs-not-dividing-n"))
            sig = dict(base, batch=bcls, layout="C")
            case = dict(rows=N, batch_size=bs, ub=None)
            rec.path()
            rec.trans()
            try:
                X = np.asarray(lsq_linear_minimize(A, Ball[:N], L1=L1[:N], batch_size=bs, **kw0), dtype=float)
            except Exception as e:  # noqa
                _v(rec, "a", dict(sig, **exc_sig(e)), "variance minimisation with a requested total, no upper bounds, %d rows and batch_size=%r raised %r" % (N, bs, e), case,
                   script="import numpy as np\nfrom dreye.api.optimize.lsq_linear import lsq_linear_minimize\nA = np.array(%r)\nB = np.array(%r)\nprint(lsq_linear_minimize(A, B, L1=np.array(%r), lb=np.zeros(%d), ub=None, l2_eps=1e-4, l1_eps=1e-2, batch_size=%r))\n" % (A.tolist(), Ball[:N].tolist(), L1[:N].tolist(), n, bs))
                rec.outcome("%s/exception" % bcls)
                continue
            rec.distinct(("unbounded-L1", N, str(bs)))
            same = X.shape == ref.shape and float(np.max(np.abs(X - ref))) <= 5e-3
            rec.outcome("%s/%s" % (bcls, "same" if same else "differs"))
            if not same:
                _v(rec, "c", dict(sig, what="row-result"), "variance minimisation with a requested total (no upper bounds): the result depends on the batch size", case, observed=X, expected=ref)
    rec.sample(dict(config="unbounded", procedure="minvar-L1"), cap=1)


def run_unit(unit, rec):
    if unit.get("kind") == "unbounded-L1":
        return _run_unbounded_L1(unit, rec)
    cfg, proc, sol, first, L = unit["config"], unit["procedure"], unit["solver"], unit["first"], unit["L"]
    spec = _spec(cfg)
    use_W = CONFIGS[cfg]["W"]
    okw = SOLVERS[sol]
    rows, Wp = _palette(spec)
    Abar, c0, lo, hi = B.model_of(spec)
    m, n = Abar.shape
    unique_x = (n <= m) or proc in ("minvar", "minvar-L1", "minvar-scalar-norm")
    if proc == "minvar-scalar-norm":
        # one allowed residual for all rows: the largest best-fit error of the palette (every row is then feasible)
        _SCALAR_NORM[0] = float(max(O.box_lsq_bounds(Abar, r_, lo, hi, c0=c0)[0] for r_ in rows)) + 0.05
    tol = {"gaussian": 4e-2 if sol == "default" else 4e-4, "poisson": 1e-2, "minvar": 4e-2 if sol == "default" else 2e-3, "minvar-L1": 5e-3, "minvar-scalar-norm": 5e-3, "excitation": 2e-2}[proc]
    base = dict(config=cfg, procedure=proc, solver=sol)
    try:
        from dreye.api import _verif
    except Exception:  # noqa
        _verif = None
    est = B.make_est(spec, rec=rec)
    rec.state(B.state_key(est))
    # reference model: every palette row alone, batch size 1
    ref = {}
    L1row = None
    if proc == "minvar-L1":
        # admissible requested totals: the totals of the unconstrained variance-minimal solutions of each palette row
        L1row = []
        for r in range(4):
            try:
                X0, _ = _call(B.make_est(spec), "minvar", rows[r : r + 1], Wp[r : r + 1], 1, okw, use_W)
            except Exception as e:  # noqa
                _v(rec, "a", dict(base, batch="reference(bs=1,n=1)", **exc_sig(e)), "variance minimisation of a single row with batch size 1 raised %r" % (e,), dict(row=r),
                   script=_script(spec, "minvar", rows[r : r + 1], Wp[r : r + 1], 1, okw, use_W))
                rec.outcome("reference-exception")
                return
            L1row.append(float(np.sum(X0[0])))
        L1row = np.array(L1row)
    for r in range(4):
        rec.trans()
        try:
            X, Bp = _call(B.make_est(spec), proc, rows[r : r + 1], Wp[r : r + 1], 1, okw, use_W, L1=(None if L1row is None else L1row[r : r + 1]))
            ref[(r, r)] = (X[0], Bp[0])
        except Exception as e:  # noqa
            _v(rec, "a", dict(base, batch="reference(bs=1,n=1)", **exc_sig(e)), "fitting a single row with batch size 1 raised %r" % (e,), dict(row=r),
               script=_script(spec, proc, rows[r : r + 1], Wp[r : r + 1], 1, okw, use_W))
            rec.outcome("reference-exception")
            return
    def get_ref(r, wi):
        # reference of palette row r fitted alone under the weight row wi
        if (r, wi) not in ref:
            rec.trans()
            Xr, Br = _call(B.make_est(spec), proc, rows[r : r + 1], Wp[wi : wi + 1], 1, okw, use_W)
            ref[(r, wi)] = (Xr[0], Br[0])
        return ref[(r, wi)]

    # all sequences starting with `first`
    for length in range(1, L + 1):
        for tail, wmode in itertools.product(itertools.product(range(4), repeat=length - 1), ("row", "position")):
            seq = (first,) + tail
            nS = len(seq)
            widx = list(seq)
            if wmode == "position":
                # a repeated target row under DIFFERENT per-sample weights (the weight row depends on the position, not on the target)
                if not (use_W is True and proc in ("gaussian", "poisson", "excitation") and any(seq[i] == seq[i + 1] for i in range(nS - 1))):
                    continue
                widx = [(r + i) % 4 for i, r in enumerate(seq)]
            second = unit.get("second")
            if second is not None and ((second == -1) != (nS == 1) or (nS > 1 and tail[0] != second)):
                continue
            Bt, Wt = rows[list(seq)], Wp[widx]
            bs_menu = list(range(1, L + 3)) + ["full", "total", None, "omit"]
            if proc == "excitation" and unit["tier"] == "quick":
                bs_menu = [1, 2, 3, "full", None]
            bs_items = [(b_, "C") for b_ in bs_menu]
            if nS == L and nS > 1 and proc != "excitation":
                # the same rows in column-major memory (e.g. the transpose of a (channels x samples) array)
                bs_items += [(b_, "F") for b_ in bs_menu if b_ not in ("omit", "total")]
            if nS == L and proc != "excitation":
                # the same calls with the progress bar switched on (verbose=1)
                bs_items += [(b_, "C/verbose") for b_ in bs_menu if b_ not in ("omit", "total", None, "full")]
            Bt_c, Wt_c = Bt, Wt
            for bs, layout in bs_items:
                Bt, Wt = (Bt_c, Wt_c) if layout != "F" else (np.asfortranarray(Bt_c), np.asfortranarray(Wt_c))
                okw_ = dict(okw, verbose=1) if layout == "C/verbose" else okw
                if bs == "omit" and nS > 1 and tail[0] != 0:
                    continue
                if bs == "total" and nS != 2:
                    continue
                eff = nS if bs in ("full", "total") else (1 if bs in (None, "omit") else bs)
                bcls = "bs=1" if eff == 1 else ("bs>n" if eff > nS else ("bs|n" if nS % eff == 0 else "bs-not-dividing-n"))
                sig = dict(base, batch=bcls, layout=layout)
                case = dict(seq=list(seq), batch_size=bs, layout=layout, weight_rows=widx)
                rec.path()
                rec.trans()
                if _verif:
                    _verif.drain()
                est_ = B.make_est(spec)
                try:
                    with contextlib.redirect_stderr(io.StringIO()) if layout == "C/verbose" else contextlib.nullcontext():
                        X, Bp = _call(est_, proc, Bt, Wt, bs, okw_, use_W, L1=(None if L1row is None else L1row[list(seq)]))
                except Exception as e:  # noqa
                    _v(rec, "a", dict(sig, **exc_sig(e)), "%s with %d rows and batch_size=%r raised %r" % (proc, nS, bs, e), case, script=_script(spec, proc, Bt, Wt, bs, okw, use_W, L1=(None if L1row is None else L1row[list(seq)])))
                    rec.outcome("%s/exception" % bcls)
                    continue
                if nS > 1 or eff != 1:
                    rec.distinct((cfg, proc, sol, seq, str(bs), layout, wmode))
                # batch-event model vs hook log (coverage + localisation)
                if _verif:
                    ev = [e for e in _verif.drain() if e.get("kind") == "solve" and e.get("n_samples") == nS]
                    if proc in ("minvar", "minvar-L1", "minvar-scalar-norm"):
                        ev = [e for e in ev if e.get("where") == "lsq_linear_minimize"]
                    if ev and proc != "excitation":
                        nb = math.ceil(nS / eff) if eff <= nS else 1
                        padded = sum(1 for e in ev if e.get("padded"))
                        rec.count("padded-batches", padded)
                        rec.count("batches", len(ev))
                        exp_pad = 1 if (nS % eff) else 0
                        if len(ev) != nb or padded != exp_pad:
                            rec.count("batch-event-mismatch")
                            _v(rec, "d", dict(sig, what="batch-events"), "batch events differ from the model: %d solves (%d padded), expected %d (%d padded)" % (len(ev), padded, nb, exp_pad), case)
                if X.shape != (nS, n) or Bp.shape != (nS, m):
                    _v(rec, "b", dict(sig, what="shape"), "result shapes %s %s for %d rows" % (X.shape, Bp.shape, nS), case)
                    continue
                bad = None
                for i, r in enumerate(seq):
                    dB = float(np.max(np.abs(Bp[i] - get_ref(r, widx[i])[1])))
                    rec.stat_max("max_dev_pred_%s_%s" % (proc, sol), dB)
                    if dB > tol:
                        bad = ("b", "row %d of the result (palette row %d) has predicted capture %.4g away from that row fitted alone" % (i, r, dB), i)
                        break
                    if unique_x:
                        dX = float(np.max(np.abs(X[i] - get_ref(r, widx[i])[0])))
                        rec.stat_max("max_dev_X_%s_%s" % (proc, sol), dX)
                        if dX > 5 * tol:
                            bad = ("c", "row %d of the result (palette row %d) has intensities %.4g away from that row fitted alone" % (i, r, dX), i)
                            break
                rec.outcome("%s/%s" % (bcls, "same" if bad is None else "differs"))
                if bad:
                    _v(rec, bad[0], dict(sig, what="row-result"), bad[1], dict(case, row=bad[2]), observed=dict(X=X, B_pred=Bp),
                       expected=dict(rows=[get_ref(r, wi)[0] for r, wi in zip(seq, widx)], preds=[get_ref(r, wi)[1] for r, wi in zip(seq, widx)]), script=_script(spec, proc, Bt, Wt, bs, okw, use_W, L1=(None if L1row is None else L1row[list(seq)])))
    rec.sample(dict(config=cfg, procedure=proc, solver=sol, first_row=rows[first], L=L), cap=1)
