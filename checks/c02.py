"""
C02 - a registered system is the exact linear model of the receptor responses.

filters (2-5 receptors) x sources (1-8) generic dyadic spectra x domain kind x K menu x baseline menu (full cross)
x intensity lattice {0, 1, 2.5}^n (+ batches) x adaptation operation (background spectrum | intensity vector).
Oracle: own trapezoid integral of the physically mixed spectrum, own K(Q + baseline).
"""

import itertools

import numpy as np

from mc import alphabets as AL
from mc import oracles as O
from mc.kernel import exc_sig

PROPERTY = "C02"
RULE = ("unit = (receptors, sources, domain kind); inside: every K x baseline combination x every intensity vector of the lattice "
        "{0,1,2.5}^n (capped at 81, plus 2-D and 3-D batches) x both adaptation operations; non-trivial = non-zero intensity vector, "
        "distinct by (unit, K, baseline, intensity vector)")
ASSUMPTIONS = ["spectra palette: quantised (1/8) Gaussian bumps with mixed overlaps, 5-7 domain samples", "receptors <= 5, sources <= 8 (thorough), <= 5 x 6 quick"]
BOUNDS = {"quick": "m in 2..4, n in {1,2,3,5}, 3 domain kinds, 5 K x 3 baselines; adapting backgrounds at full, 1e-7 and 1e-14 strength, adapting intensities 1 and 1e-10", "thorough": "m in 2..5, n in 1..8"}
TECHNIQUE = "full cross product of system shape x domain kind x K x baseline x intensity lattice, compared with an independent spectrum-space integral"
LEVEL_TEXT = ("every configuration of the menu is registered through the public API and every lattice intensity vector is pushed through system_capture / "
              "system_relative_capture / capture / relative_capture, before and after both adaptation operations; results must equal the trapezoid integral of the "
              "physically mixed spectrum and K(Q+baseline) computed independently")
LEVEL_NOTE = "small scope (<= 5 receptors, <= 8 sources, <= 7 domain samples); linearity makes the lattice {0,1,2.5}^n decisive only together with C01's bilinearity result"
KE = ("exc", "msg", "api", "K", "baseline")
KV = ("api", "K", "baseline", "domain", "clause_of", "op")


def _v(rec, clause, sig, *a, **k):
    rec.violation(clause, sig, *a, keys=(KE if "exc" in sig else KV), **k)


def units(tier, seed):
    ms = (2, 3, 4) if tier == "quick" else (2, 3, 4, 5)
    ns = (1, 2, 3, 5) if tier == "quick" else (1, 2, 3, 4, 5, 6, 7, 8)
    out = []
    for m, n, dk in itertools.product(ms, ns, ("scalar", "uniform-array", "nonuniform-array")):
        out.append(dict(m=m, n=n, domain=dk, tier=tier, seed=seed))
    return out


def _spectra(k, d, salt):
    x = np.arange(d)
    S = np.zeros((k, d))
    for i in range(k):
        c = (i + 0.5 + 0.37 * salt) * d / (k + 0.5)
        S[i] = np.round(8 * (3.0 * np.exp(-((x - c) ** 2) / (1.5 + 0.5 * ((i + salt) % 3))) + 0.125 * ((i + salt) % 2))) / 8.0
    return S


def _K_apply(K, V):
    """own K(.) on rows of V"""
    if K is None:
        return V
    K = np.asarray(K, dtype=float)
    if K.ndim <= 1:
        return V * K
    return np.einsum("ij,...j->...i", K, V)


def run_unit(unit, rec):
    import dreye

    m, n, dk, tier = unit["m"], unit["n"], unit["domain"], unit["tier"]
    d = 6 if m <= 3 else 7
    if dk == "scalar":
        domain, okw = 2.5, dict(dx=2.5)
    elif dk == "uniform-array":
        domain = 300.0 + 10.0 * np.arange(d)
        okw = dict(x=domain)
    else:
        domain = np.array([300.0, 301.0, 304.0, 310.0, 311.5, 320.0, 340.0])[:d]
        okw = dict(x=domain)
    filters = _spectra(m, d, 0)
    sources = _spectra(n, d, 1)
    wts = O.trapz_weights(d, **okw)
    A_ref = np.einsum("id,kd,d->ik", filters, sources, wts)  # m x n
    lat = AL.lattice(np.zeros(n), np.ones(n), (0.0, 1.0, 2.5)) if n <= 4 else np.vstack([AL.lattice(np.zeros(n), np.ones(n), (0.0, 2.5))[:: max(1, 2 ** n // 40)], np.eye(n), np.ones((1, n)) * 1.0])
    # a per-receptor baseline with an exact zero entry (a receptor without dark activity) in addition to the shared menu
    bmenu = AL.baseline_menu(m) + [("vector-zero-entry", np.where(np.arange(m) == 1, 0.0, 0.125 + 0.25 * np.arange(m)))]
    kmenu = AL.K_menu(m) + [("matrix-lower-triangular", np.tril(0.5 + 0.25 * ((np.arange(m)[:, None] * 2 + np.arange(m)[None, :]) % 4)))]
    for (kname, K), (bname, bl) in itertools.product(kmenu, bmenu):
        sig = dict(K=kname, baseline=bname, domain=dk, shape="%dx%d" % (m, n))
        kw = {}
        if K is not None:
            kw["K"] = K
        if bl is not None:
            kw["baseline"] = bl
        rec.trans(2)
        try:
            est = dreye.ReceptorEstimator(filters, domain=domain, **kw)
            est.register_system(sources, ub=np.full(n, 3.0))
        except Exception as e:  # noqa
            _v(rec, "f", dict(sig, api="register_system", **exc_sig(e)), "construction / register_system raised %r" % (e,), dict(K=kname, baseline=bname))
            rec.outcome("exception")
            continue
        from mc.build import state_key

        rec.state(state_key(est))
        bvec = np.zeros(m) if bl is None else np.broadcast_to(np.asarray(bl, dtype=float), (m,))

        def check_caps(tag, Kcur):
            # a/b/c on the whole lattice at once (2-D batch), on single rows (1-D) and on a 3-D batch
            for form in ("rows", "batch2d", "batch3d"):
                if form == "rows":
                    inputs = [x for x in lat]
                elif form == "batch2d":
                    inputs = [lat]
                else:
                    k3 = (len(lat) // 2) * 2
                    inputs = [lat[:k3].reshape(2, k3 // 2, n)]
                for X in inputs:
                    rec.path()
                    mixed = np.tensordot(X, sources, axes=([-1], [0]))  # (..., d)
                    Qref = np.einsum("...d,id,d->...i", mixed, filters, wts)
                    Rref = _K_apply(Kcur, Qref + bvec)
                    for api, ref, cl in (("system_capture", Qref, "a"), ("system_relative_capture", Rref, "c")):
                        rec.trans()
                        try:
                            out = np.asarray(getattr(est, api)(X))
                        except Exception as e:  # noqa
                            _v(rec, "f", dict(sig, api=api, op=tag, **exc_sig(e)), "%s raised %r" % (api, e), dict(K=kname, baseline=bname, api=api, op=tag))
                            rec.outcome("exception")
                            continue
                        okv = out.shape == ref.shape and np.all(np.abs(out - ref) <= 1e-10 * (1 + np.abs(ref)))
                        if np.any(X != 0):
                            rec.distinct((unit["m"], n, dk, kname, bname, tag, form, X.tobytes()[:64], api))
                        rec.outcome("%s/%s" % (api, "ok" if okv else "bad"))
                        if not okv:
                            _v(rec, cl if form == "rows" else "b", dict(sig, api=api, op=tag, form=form),
                               "%s differs from the %s (%s)" % (api, "capture of the physically mixed spectrum" if cl == "a" else "own K(Q+baseline)", form),
                               dict(K=kname, baseline=bname, api=api, op=tag, form=form), observed=out if out.size < 30 else out.ravel()[:30], expected=ref if ref.size < 30 else ref.ravel()[:30])
            # capture / relative_capture of spectra (2-D signals): rows = signals
            sigs = np.vstack([sources, sources.sum(0, keepdims=True) * 0.5])
            Q = np.einsum("sd,id,d->si", sigs, filters, wts)
            for api, ref in (("capture", Q), ("relative_capture", _K_apply(Kcur, Q + bvec))):
                rec.trans()
                rec.path()
                try:
                    out = np.asarray(getattr(est, api)(sigs))
                except Exception as e:  # noqa
                    _v(rec, "f", dict(sig, api=api, op=tag, **exc_sig(e)), "%s raised %r" % (api, e), dict(K=kname, baseline=bname, api=api, op=tag))
                    continue
                okv = out.shape == ref.shape and np.all(np.abs(out - ref) <= 1e-10 * (1 + np.abs(ref)))
                rec.outcome("%s/%s" % (api, "ok" if okv else "bad"))
                if not okv:
                    _v(rec, "c", dict(sig, api=api, op=tag), "%s differs from own K(Q+baseline)" % api, dict(K=kname, baseline=bname, api=api, op=tag), observed=out, expected=ref)

        check_caps("initial", K)
        # the transformed system handed to every fitting / gamut routine: (K A) x + K baseline must be the relative capture of x
        rec.trans()
        rec.path()
        try:
            from dreye.api.utils import apply_linear_transform

            At, bt = apply_linear_transform(np.asarray(est.A, dtype=float), est.K, est.baseline)
            At, bt = np.asarray(At, dtype=float), np.asarray(bt, dtype=float)
            ref = _K_apply(K, lat @ A_ref.T + bvec)
            out = lat @ At.T + bt
            okv = out.shape == ref.shape and np.all(np.abs(out - ref) <= 1e-10 * (1 + np.abs(ref)))
            rec.outcome("transformed-system/%s" % ("ok" if okv else "bad"))
            if not okv:
                _v(rec, "c", dict(sig, api="apply_linear_transform", op="initial"), "the transformed system (K A, K baseline) does not reproduce K(A x + baseline)", dict(K=kname, baseline=bname, api="apply_linear_transform"),
                   observed=dict(A=At, baseline=bt), expected=dict(example_x=lat[-1], relative_capture=ref[-1]))
        except Exception as e:  # noqa
            _v(rec, "f", dict(sig, api="apply_linear_transform", **exc_sig(e)), "apply_linear_transform raised %r" % (e,), dict(K=kname, baseline=bname, api="apply_linear_transform"))
        # A itself (public observation: system_capture of the identity)
        # -- d: background adaptation
        bg = sources.sum(0) * 0.75 + 0.25
        for with_domain in (False, True):
            rec.trans(2)
            rec.path()
            try:
                if with_domain and dk != "scalar":
                    est.register_background_adaptation(bg, domain=domain)
                    rc = np.asarray(est.relative_capture(bg, domain=domain))
                elif with_domain:
                    est.register_background_adaptation(bg, domain=2.5)
                    rc = np.asarray(est.relative_capture(bg, domain=2.5))
                else:
                    est.register_background_adaptation(bg)
                    rc = np.asarray(est.relative_capture(bg))
            except Exception as e:  # noqa
                _v(rec, "f", dict(sig, api="register_background_adaptation", **exc_sig(e)), "background adaptation raised %r" % (e,), dict(K=kname, baseline=bname, op="bg", with_domain=with_domain))
                rec.outcome("exception")
                continue
            okv = rc.shape == (m,) and np.all(np.abs(rc - 1.0) <= 1e-12)
            rec.distinct((m, n, dk, kname, bname, "bg", with_domain))
            rec.outcome("bg-adaptation/%s" % ("one" if okv else "not-one"))
            if not okv:
                _v(rec, "d", dict(sig, api="register_background_adaptation", op="bg"), "relative capture of the adapting background is not 1", dict(K=kname, baseline=bname, op="bg", with_domain=with_domain), observed=rc, expected=np.ones(m))
        Qbg = np.einsum("d,id,d->i", bg, filters, wts)
        check_caps("after-bg", 1.0 / (Qbg + bvec))
        if dk != "scalar":
            # a background measured on its OWN wavelength axis (a sub-range of the filter axis, non-zero at its ends):
            # after adapting to it, its relative capture (given on that same axis) is 1
            d2 = np.asarray(domain, dtype=float)[1:-1]
            bg2 = bg[1:-1] + 0.5
            rec.trans(2)
            rec.path()
            try:
                est.register_background_adaptation(bg2, domain=d2)
                rc = np.asarray(est.relative_capture(bg2, domain=d2))
                okv = rc.shape == (m,) and np.all(np.abs(rc - 1.0) <= 1e-12)
                rec.distinct((m, n, dk, kname, bname, "bg-own-domain"))
                rec.outcome("bg-adaptation/%s" % ("one" if okv else "not-one"))
                if not okv:
                    _v(rec, "d", dict(sig, api="register_background_adaptation", op="bg-own-domain"), "relative capture of the adapting background (given on its own domain) is not 1", dict(K=kname, baseline=bname, op="bg-own-domain"), observed=rc, expected=np.ones(m))
            except Exception as e:  # noqa
                _v(rec, "f", dict(sig, api="register_background_adaptation", **exc_sig(e)), "background adaptation on its own domain raised %r" % (e,), dict(K=kname, baseline=bname, op="bg-own-domain"))
            est.register_background_adaptation(bg)
        # -- d again: dim backgrounds in absolute radiometric units (captures of order 1e-6 .. 1e-13)
        for dim in (1e-7, 1e-14):
            bgd = bg * dim
            rec.trans(2)
            rec.path()
            try:
                est.register_background_adaptation(bgd)
                rc = np.asarray(est.relative_capture(bgd))
            except Exception as e:  # noqa
                _v(rec, "f", dict(sig, api="register_background_adaptation", **exc_sig(e)), "background adaptation raised %r" % (e,), dict(K=kname, baseline=bname, op="bg-dim", dim=dim))
                rec.outcome("exception")
                continue
            okv = rc.shape == (m,) and np.all(np.abs(rc - 1.0) <= 1e-12)
            rec.distinct((m, n, dk, kname, bname, "bg-dim", dim))
            rec.outcome("bg-adaptation/%s" % ("one" if okv else "not-one"))
            if not okv:
                _v(rec, "d", dict(sig, api="register_background_adaptation", op="bg-dim"), "relative capture of a dim adapting background (x %g) is not 1" % dim, dict(K=kname, baseline=bname, op="bg-dim", dim=dim), observed=rc, expected=np.ones(m))
            if bl is None and dim == 1e-7:
                check_caps("after-bg-dim", 1.0 / (Qbg * dim + bvec))
        # -- e: system adaptation
        for xa in (np.ones(n), 1e-10 * (1.0 + np.arange(n)), 0.5 + 0.25 * np.arange(n)):
            rec.trans(2)
            rec.path()
            try:
                est.register_system_adaptation(xa)
                rc = np.asarray(est.system_relative_capture(xa))
            except Exception as e:  # noqa
                _v(rec, "f", dict(sig, api="register_system_adaptation", **exc_sig(e)), "system adaptation raised %r" % (e,), dict(K=kname, baseline=bname, op="sys"))
                rec.outcome("exception")
                continue
            okv = rc.shape == (m,) and np.all(np.abs(rc - 1.0) <= 1e-12)
            rec.distinct((m, n, dk, kname, bname, "sys", xa.tobytes()))
            rec.outcome("system-adaptation/%s" % ("one" if okv else "not-one"))
            if not okv:
                _v(rec, "e", dict(sig, api="register_system_adaptation", op="sys"), "relative capture of the adapting intensities is not 1", dict(K=kname, baseline=bname, op="sys"), observed=rc, expected=np.ones(m))
        check_caps("after-sys", 1.0 / (A_ref @ xa + bvec))
    rec.sample(dict(m=m, n=n, domain=dk, filters=filters.tolist(), lattice_points=len(lat)), cap=1)
