"""
C07 - Poisson and excitation models minimise their objective; all three models agree in gamut.

Non-negative systems x bounds x K (scalar/vector) x baseline (0 / non-zero) x targets >= 0 (in gamut, vertices,
outside, zero) x model.  Oracles: certified convex lower bound for the weighted Poisson NLL (independent L-BFGS-B
candidate + convexity certificate), bisection over LP feasibility for the quasi-convex excitation objective.
"""

import numpy as np

from mc import alphabets as AL
from mc import build as B
from mc import oracles as O
from mc.kernel import exc_sig

PROPERTY = "C07"
RULE = ("unit = (system, model); paths = fit calls per target; non-trivial = targets in the well-scaled regime with a decided class (in gamut / outside); distinct by (system, model, target)")
ASSUMPTIONS = ["Poisson NLL tolerance 1e-3 (1 + |NLL|) (a capture error of 2e-2 changes the NLL by ~2e-4)", "excitation tolerance 2e-3 excitation units (SCS bisection at default accuracy)",
               "optimality of the Poisson model is certified for finite bounds only (the convexity certificate needs a bounded box); default (0, inf) bounds are explored for crashes, bounds and in-gamut reproduction",
               "weights w = 1 for the excitation model (its weighted objective is not documented)"]
BOUNDS = {"quick": "shapes 2x2 2x3 3x3 3x4 (poisson also 4x4 3x2) x 2 matrices; bounds x K x baseline <= 2 deviations; 12 (poisson) / 5 (excitation) targets", "thorough": "more shapes, all targets for excitation"}
CAP_S = {"quick": 600, "thorough": 7200}
TECHNIQUE = "all systems x options (deviation-bounded) x geometric target lattice; objective value compared with a certified convex lower bound (Poisson) or a bisection-over-LP optimum (excitation)"
LEVEL_TEXT = "every enumerated (system, target) is fitted with the poisson and excitation models; bounds, exactness of the prediction, and global optimality of the documented objective are decided against oracles that cannot be wrong (convexity certificate / LP feasibility bisection); in-gamut targets must be reproduced by all three models"
LEVEL_NOTE = "small scope; solver tolerances as stated; HiGHS and L-BFGS-B inside the oracles (the certificate is valid for any candidate)"
KE = ("exc", "msg", "model", "target")
KV = ("model", "what", "baseline", "target", "bounds_kind", "K")


def _v(rec, clause, sig, *a, **k):
    rec.violation(clause, sig, *a, keys=(KE if "exc" in sig else KV), **k)


def units(tier, seed):
    out = []
    shapes_p = [(2, 2), (2, 3), (3, 3), (3, 4), (4, 4), (3, 2)] if tier == "quick" else [(2, 2), (2, 3), (2, 4), (3, 3), (3, 4), (3, 5), (4, 4), (4, 5), (3, 2), (1, 2)]
    shapes_e = [(2, 2), (2, 3), (3, 3)] if tier == "quick" else [(2, 2), (2, 3), (3, 3), (3, 4), (4, 4)]
    for model, shapes in (("poisson", shapes_p), ("excitation", shapes_e)):
        gen = AL.systems(shapes, seed=seed, order=(2 if model == "poisson" else 1), bounds=["ub-finite", "lb-mixed", "scalar", "default"], Ks=["default", "scalar", "vector"], seeded=(model == "poisson"))
        for names, A, (lb, ub), K, bl in gen:
            if model == "excitation" and names["A"] == "perm":
                continue
            if tier == "quick" and model == "poisson" and names["A"] != "asc" and sum(names[k] not in ("default", "ub-finite") for k in ("bounds", "K", "baseline")) > 1:
                continue
            out.append(dict(model=model, names=names, spec=B.spec_of(A, lb, ub, K, bl), tier=tier))
    # weighted Poisson likelihood (per-receptor weights)
    for (m, n) in [(2, 2), (2, 3), (3, 3), (3, 2)]:
        for aname, A in AL.A_palette(m, n, seed=seed, seeded=False)[:1]:
            for bn, kn, sn in (("ub-finite", "default", "default"), ("lb-mixed", "vector", "vector"), ("scalar", "scalar", "scalar")):
                bm = {b[0]: b for b in AL.bounds_menu(n)}[bn]
                names = dict(shape="%dx%d" % (m, n), A=aname, bounds=bn, K=kn, baseline=sn, weights="vector")
                out.append(dict(model="poisson", names=names, tier=tier,
                                spec=B.spec_of(A, bm[1], bm[2], dict(AL.K_menu(m))[kn], dict(AL.baseline_menu(m))[sn], AL.w_menu(m)[1][1])))
    # a per-receptor baseline with an exact zero entry (a receptor without dark activity), both models
    for (m, n) in [(2, 2), (2, 3), (3, 3), (3, 2)]:
        A = AL.A_palette(m, n, seed=seed, seeded=False)[0][1]
        bz = np.array([0.375, 0.0, 0.125])[:m]
        for model in ("poisson", "excitation"):
            if model == "excitation" and (m, n) in ((3, 2),):
                continue
            for bn, kn in (("ub-finite", "default"), ("lb-mixed", "vector")):
                bm = {b[0]: b for b in AL.bounds_menu(n)}[bn]
                names = dict(shape="%dx%d" % (m, n), A="asc", bounds=bn, K=kn, baseline="vector-zero-entry", weights="default")
                out.append(dict(model=model, names=names, tier=tier, spec=B.spec_of(A, bm[1], bm[2], dict(AL.K_menu(m))[kn], bz)))
    # excitation saturates (e = q / (1 + q)): systems with captures of order one and a baseline of the same size are the sensitive ones
    for (m, n) in [(2, 2), (3, 2), (2, 3)]:
        A = AL.A_palette(m, n, seed=seed, seeded=False)[0][1] / 8.0
        for sn, bl in (("large-vector", 0.4 + 0.55 * np.arange(m)[::-1]), ("default", None)):
            names = dict(shape="%dx%d" % (m, n), A="asc/8", bounds="ub-finite", K="default", baseline=sn, weights="default")
            out.append(dict(model="excitation", names=names, tier=tier, spec=B.spec_of(A, np.zeros(n), 1.0 + np.arange(n) / 4.0, None, bl), more_outside=True))
    # excitation model with non-unit receptor weights: the weighted objective is not documented, but a zero error is optimal under any
    # weighting, so in-gamut targets must still be reproduced (and the bounds respected)
    for (m, n) in [(2, 2), (2, 3), (3, 3)]:
        A = AL.A_palette(m, n, seed=seed, seeded=False)[0][1]
        for bn, kn, sn in (("ub-finite", "default", "vector"), ("lb-mixed", "vector", "scalar")):
            bm = {b[0]: b for b in AL.bounds_menu(n)}[bn]
            names = dict(shape="%dx%d" % (m, n), A="asc", bounds=bn, K=kn, baseline=sn, weights="vector")
            out.append(dict(model="excitation", names=names, tier=tier, in_gamut_only=True,
                            spec=B.spec_of(A, bm[1], bm[2], dict(AL.K_menu(m))[kn], dict(AL.baseline_menu(m))[sn], AL.w_menu(m)[1][1])))
    out.sort(key=lambda u: 0 if u["model"] == "excitation" else 1)
    return out


def _targets(Abar, c0, lo, hi, few):
    m, n = Abar.shape
    bounded = bool(np.all(np.isfinite(hi)))
    hi_ = np.where(np.isfinite(hi), hi, lo + 2.0)
    ext = float(np.max(np.abs(Abar) @ (hi_ - lo)))
    T = []
    X = AL.lattice(lo, hi_, (0.25, 0.75))
    for x in X[:: max(1, len(X) // (2 if few else 4))][: (2 if few else 4)]:
        T.append(("interior", c0 + Abar @ x))
    T.append(("vertex", c0 + Abar @ np.where(np.arange(n) % 2 == 0, hi_, lo)))
    if bounded:
        fp = [t for t in O.zono_facet_points(Abar, c0, lo, hi) if np.all(t[0] + 0.2 * ext * t[1] >= 0)]
        for cen, nu in fp[: (1 if few else 3)]:
            T.append(("outside", cen + 0.2 * ext * nu))
    e0 = np.zeros(m)
    e0[0] = 1.0
    T.append(("skew", np.maximum(c0 + Abar @ ((lo + hi_) / 2) + 0.6 * ext * e0, 0.05)))
    if not few:
        T.append(("zero", np.zeros(m)))
        T.append(("small", np.full(m, 0.0625)))
        T.append(("far", (c0 + Abar @ hi_) * 2.0))
    return T, ext


def _script(spec, t, model):
    return B.script_est(spec) + "b = np.array([%r])\nprint(est.fit(b, model=%r))\n" % (np.asarray(t).tolist(), model)


def run_unit(unit, rec):
    spec, names, model, tier = unit["spec"], unit["names"], unit["model"], unit["tier"]
    est = B.make_est(spec, rec=rec)
    rec.state(B.state_key(est))
    Abar, c0, lo, hi = B.model_of(spec, True)
    m, n = Abar.shape
    bounded = bool(np.all(np.isfinite(hi)))
    T, ext = _targets(Abar, c0, lo, hi, few=(model == "excitation" and tier == "quick"))
    if unit.get("in_gamut_only"):
        mg0 = O.zono_margin(np.array([t[1] for t in T]), Abar, c0, lo, hi)
        T = [t for t, g in zip(T, mg0) if g >= 2e-2]
        X_ = AL.lattice(lo, hi, (0.2, 0.5, 0.8))
        T += [("interior", c0 + Abar @ x) for x in X_[:: max(1, len(X_) // 5)][:5]]
    if unit.get("more_outside"):
        cen = c0 + Abar @ ((lo + hi) / 2)
        for k in range(m):
            e = np.zeros(m)
            e[k] = 1.0
            T.append(("outside", np.maximum(cen + 0.8 * ext * e - 0.3 * ext * (1 - e), 0.02)))
    P = np.array([t[1] for t in T])
    w = np.ones(m) if spec.get("w") is None else np.asarray(spec["w"], dtype=float)
    base = dict(names, model=model, bounds_kind="bounded" if bounded else "unbounded")
    rng_ = np.where(np.isfinite(hi), hi - lo, 1.0)
    regime_sys = (1.0 <= ext <= 100.0) or bool(unit.get("more_outside"))
    rec.path()
    rec.trans()
    try:
        X, Bp = est.fit(P, model=model)
        err = None
    except Exception as e:  # noqa
        err = e
    if err is not None:
        kind_bad = "batch"
        for kind, t in T:
            rec.trans()
            try:
                est.fit(t[None], model=model)
            except Exception:  # noqa
                kind_bad = kind
                break
        _v(rec, "a", dict(base, target=kind_bad, **exc_sig(err)), "fit(model=%r) raised %r" % (model, err), dict(target=kind_bad), script=_script(spec, P[0], model))
        rec.outcome("exception")
        return
    X, Bp = np.asarray(X, dtype=float), np.asarray(Bp, dtype=float)
    own = X @ Abar.T + c0
    if np.max(np.abs(Bp - own)) > 1e-9 * (1 + np.max(np.abs(own))):
        _v(rec, "d", dict(base, what="prediction"), "returned prediction is not the model's capture of the returned intensities", dict(), observed=Bp[:2], expected=own[:2])
    mg = O.zono_margin(P, Abar, c0, lo, hi) if bounded else O.cone_margin(P, Abar, c0 + Abar @ lo)
    # the gaussian fit of in-gamut targets for clause e
    for idx, (kind, t) in enumerate(T):
        x = X[idx]
        sig = dict(base, target=kind)
        case = dict(target=idx, kind=kind)
        in_regime = regime_sys and np.max(np.abs(t)) <= 100.0
        if np.any(x < lo - 0.01 * rng_ - 1e-9) or np.any(x > hi + 0.01 * rng_ + 1e-9):
            _v(rec, "a", dict(sig, what="bounds"), "returned intensities violate the bounds", case, observed=x, expected=dict(lb=lo, ub=hi), script=_script(spec, t, model))
        q = Abar @ x + c0
        ingamut = mg is not None and mg[idx] >= 2e-2
        if in_regime:
            rec.distinct((spec, model, idx))
        if model == "poisson":
            if bounded and np.all(t >= 0):
                xc = np.clip(x, lo, hi)
                f, _ = O.poisson_nll(Abar, c0, t, w)
                val = f(xc)
                xs, fs, low = O.poisson_oracle(Abar, c0, t, w, lo, hi)
                gap = fs - low
                tol = 1e-3 * (1 + abs(low))
                if not np.isfinite(low) or gap > tol / 4:
                    rec.outcome("poisson/oracle-loose")
                elif in_regime:
                    rec.stat_max("poisson_excess", val - low)
                    ok = val <= low + tol
                    rec.outcome("poisson-%s/%s" % ("in-gamut" if ingamut else "other", "optimal" if ok else "suboptimal"))
                    if not ok:
                        _v(rec, "b", dict(sig, what="suboptimal"), "Poisson NLL %.6g exceeds the certified optimum %.6g by more than %.2g" % (val, low, tol), case,
                           observed=dict(X=x, nll=val), expected=dict(X=xs, nll_lower_bound=low, target=t), script=_script(spec, t, model))
        elif not unit.get("in_gamut_only"):
            val = float(np.max(np.abs(O.excitation(t) - O.excitation(q))))
            tstar = O.excitation_opt(Abar, c0, t, lo, hi)
            if in_regime:
                rec.stat_max("excitation_excess", val - tstar)
                ok = val <= tstar + 2e-3
                rec.outcome("excitation-%s/%s" % ("in-gamut" if ingamut else "other", "optimal" if ok else "suboptimal"))
                if not ok:
                    _v(rec, "c", dict(sig, what="suboptimal"), "largest excitation difference %.5f exceeds the optimum %.5f by more than 2e-3" % (val, tstar), case,
                       observed=dict(X=x, value=val, pred=q), expected=dict(optimum=tstar, target=t), script=_script(spec, t, model))
        # e: in-gamut targets are reproduced
        if ingamut and in_regime:
            dev = float(np.max(np.abs(q - t)))
            tol_e = 5e-2 if model == "poisson" else 2e-3 * float(np.max((1 + t) * (1 + q))) + 1e-3
            if unit.get("in_gamut_only"):
                rec.outcome("weighted-excitation-in-gamut/%s" % ("reproduced" if dev <= tol_e else "not-reproduced"))
            if dev > tol_e:
                _v(rec, "e", dict(sig, what="in-gamut-not-reproduced"), "in-gamut target (margin %.3g) not reproduced by the %s model (max deviation %.4g)" % (mg[idx], model, dev), case,
                   observed=q, expected=t, script=_script(spec, t, model))
    if unit.get("in_gamut_only"):
        # two routes, one answer: targets registered together with per-sample weights and fitted by the estimator vs. the module-level
        # routine called with the registered values (also for out-of-gamut targets, without any assumption about the weighted objective)
        import copy
        from dreye.api.optimize.lsq_linear import lsq_linear_excitation

        fpo = O.zono_facet_points(Abar, c0, lo, hi)
        Tm = np.array([T[0][1], np.maximum(fpo[0][0] + 0.2 * ext * fpo[0][1], 0.05), np.maximum(fpo[-1][0] + 0.3 * ext * fpo[-1][1], 0.05)])
        Wreg = np.array([np.roll(np.array([3.0, 0.4, 1.5][:m]), k_) for k_ in range(len(Tm))])
        rec.path()
        rec.trans(3)
        try:
            est_r = copy.deepcopy(est)
            est_r.register_targets(Tm, Wreg)
            est_r.fit(model="excitation")
            X_est = np.asarray(est_r.X, dtype=float)
            Kq, bq = B.arr(spec["K"]), B.arr(spec["baseline"])
            X_mod = np.asarray(lsq_linear_excitation(np.array(spec["A"]), Tm, lb=B.arr(spec["lb"]), ub=B.arr(spec["ub"]), W=Wreg, K=(None if Kq is None else np.atleast_1d(Kq)),
                                                     baseline=(None if bq is None else np.atleast_1d(bq))), dtype=float)
            same = X_est.shape == X_mod.shape and float(np.max(np.abs(X_est - X_mod))) <= 1e-6
            rec.outcome("excitation-registered-weights/%s" % ("same-as-module-route" if same else "differs"))
            if not same:
                _v(rec, "c", dict(base, target="registered-weights", what="route-consistency"), "fit(model='excitation') of targets registered with per-sample weights differs from lsq_linear_excitation called with the registered values (max dev %.4g)" % float(np.max(np.abs(X_est - X_mod))),
                   dict(targets=len(Tm)), observed=X_est, expected=X_mod)
        except Exception as e:  # noqa
            _v(rec, "a", dict(base, target="registered-weights", **exc_sig(e)), "excitation fit of registered weighted targets raised %r" % (e,), dict(targets=3))
    rec.sample(dict(system=names, model=model, targets=len(T), example=dict(target=T[0][1], X=X[0])), cap=1)
