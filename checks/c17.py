"""
C17 - hull projections return the nearest point, the boundary hit and the exact slice.

2-D: EVERY sub-cloud of size 3..5 of the lattice {0,1,2}^2; 3-D: every sub-cloud of size 4..6 of {0,1}^3 + centre;
4-D/5-D: simplex, cube corners, fewer points than dimensions; seeded generic clouds.  Queries: lattice points,
all lattice directions, admissible c values including exact vertex sums.
Oracles: variational inequality + facet feasibility (nearest point), facet incidence (boundary multiple),
all-pairs segment/plane intersections (slice), brute-force hull H-representation.
"""

import itertools

import numpy as np

from mc import oracles as O
from mc.kernel import exc_sig

PROPERTY = "C17"
RULE = ("unit = (dimension, cloud size class); paths = calls per cloud (projection of the query lattice, boundary multiples of all lattice directions, slices at every admissible c); "
        "non-trivial = query outside the hull / direction non-zero / slice with >= 2 distinct points; distinct by (cloud, query)")
ASSUMPTIONS = ["facet equations are taken both from an independent brute-force H-representation and from scipy's ConvexHull (as a user would)", "tolerances 1e-9 (projection, boundary), 1e-7 (hull equality by mutual distance)"]
BOUNDS = {"quick": "all 336 sub-clouds (2-D), all 336 (3-D, size 4-6), fixed 4-D/5-D clouds", "thorough": "plus size 6 (2-D), size 7 (3-D), seeded generic clouds"}
TECHNIQUE = "all sub-clouds of small lattices x query lattice x all admissible slice levels; variational-inequality / incidence / all-pairs-slice oracles"
LEVEL_TEXT = "every sub-cloud of the lattices is run through proj_B_to_hull, alpha_for_B_with_P, B_with_P and proj_P_to_simplex for every query of a lattice; nearest-point optimality is decided by the variational inequality against all cloud points, boundary incidence by the facet inequalities, and slice equality by mutual containment with the all-pairs intersection set"
LEVEL_NOTE = "clouds in 2-5 dimensions of at most 32 points"
KE = ("exc", "msg", "api", "dim")
KV = ("api", "what", "dim", "eqsrc", "flat")


_BUFFERS = {}


def _v(rec, clause, sig, *a, **k):
    rec.violation(clause, sig, *a, keys=(KE if "exc" in sig else KV), **k)


def units(tier, seed):
    out = []
    for size in ((3, 4, 5) if tier == "quick" else (3, 4, 5, 6)):
        for part in range(4):
            out.append(dict(dim=2, size=size, part=part, nparts=4, tier=tier, seed=seed))
    for size in ((4, 5, 6) if tier == "quick" else (4, 5, 6, 7)):
        for part in range(6):
            out.append(dict(dim=3, size=size, part=part, nparts=6, tier=tier, seed=seed))
    out.append(dict(dim=4, size=0, part=0, nparts=1, tier=tier, seed=seed))
    out.append(dict(dim=5, size=0, part=0, nparts=1, tier=tier, seed=seed))
    return out


def _clouds(unit):
    d, size = unit["dim"], unit["size"]
    if d == 2:
        base = [np.array(p, dtype=float) for p in itertools.product(range(3), repeat=2)]
        combos = list(itertools.combinations(range(9), size))
        for S in combos[unit["part"] :: unit["nparts"]]:
            yield ("lat2", S), np.array([base[i] for i in S])
    elif d == 3:
        base = [np.array(p, dtype=float) for p in itertools.product(range(2), repeat=3)] + [np.array([0.5, 0.5, 0.5])]
        combos = list(itertools.combinations(range(9), size))
        for S in combos[unit["part"] :: unit["nparts"]]:
            yield ("lat3", S), np.array([base[i] for i in S])
    else:
        yield ("simplex", d), np.vstack([np.zeros(d), 2 * np.eye(d)])
        yield ("simplex-shift", d), np.vstack([np.zeros(d), 2 * np.eye(d)]) + 0.5
        yield ("cube", d), np.array(list(itertools.product((0.0, 1.0), repeat=d)))
        yield ("few", d), np.array([[1.0] + [0.0] * (d - 1), [0.0, 2.0] + [0.0] * (d - 2), [0.5] * d])
        yield ("cross", d), np.vstack([np.eye(d) * 2 + 1, np.ones(d), 1 + np.ones(d) * 0.25])
        # a cloud with a repeated row that is not the last one (lattice data drawn with replacement)
        if d <= 4:
            cube = np.array(list(itertools.product((0.0, 1.0), repeat=d)))
            yield ("cube-repeated-corner", d), np.vstack([cube[:3], cube[1:2], cube[3:], cube[5:6]])
        else:
            sx = np.vstack([np.zeros(d), 2 * np.eye(d), np.full(d, 0.75)])
            yield ("simplex-repeated-rows", d), np.vstack([sx[:2], sx[1:2], sx[2:], sx[4:5]])
        # no more points than dimensions: exactly four points split two below / two above the plane (the slice is a quadrilateral)
        quad = np.zeros((4, d))
        quad[0, :2] = [0.5, 0.25]
        quad[1, 1:3] = [0.25, 0.75]
        quad[2, :] = 0.75
        quad[3, :] = np.arange(1, d + 1) * 0.5
        yield ("four-points-2-2", d), quad
        rng = np.random.default_rng(31 + unit["seed"])
        yield ("seeded", d), np.round(rng.uniform(0, 3, (d + 4, d)) * 8) / 8
        # flat AND elongated sheets (rank 2 in d dimensions, aspect ratios 50 .. 30000), non-negative coordinates
        for asp in (50.0, 3000.0, 30000.0):
            u = np.zeros(d); u[0], u[1] = 0.6, 0.8
            v = np.zeros(d); v[2], v[-1] = 0.6, 0.8
            Y = np.array([[0.0, 0.0], [asp, 0.0], [asp, 1.0], [0.0, 1.0], [asp / 2, 0.5], [asp / 3, 0.25], [asp / 5, 0.75]])
            yield ("sheet-%d" % asp, d), Y[:, :1] * u + Y[:, 1:] * v + 0.5


def _slices(rec, dreye, name, P, d, sig, scale, reuse_buffer):
    psum = P.sum(1)
    lo_, hi_ = psum.min(), psum.max()
    if hi_ - lo_ < 1e-9:
        return
    cs = sorted(set([lo_ + f * (hi_ - lo_) for f in (0.25, 0.5, 0.8)] + [s for s in np.unique(psum) if lo_ <= s < hi_]))
    cs = [c for c in cs if c > 0]
    # lattice clouds are integer-valued: they are also handed over as integer-typed arrays (np.indices / itertools.product style)
    if reuse_buffer:
        # one work array per cloud shape, refilled in place with each new cloud and sliced without any other call in between
        # (the answer depends on the contents, not on the array object)
        buf = _BUFFERS.setdefault(P.shape, np.empty(P.shape))
        buf[:] = P
        variants = [("reused-buffer", buf)]
    else:
        variants = [("float", P)] + ([("int", P.astype(np.int64))] if np.all(P == np.round(P)) else [])
        # ... and as small unsigned integers (image / DAC style data) when the values fit: the slice must not depend on the dtype
        if np.all(P == np.round(P)) and P.min() >= 0 and P.max() <= 255:
            variants.append(("uint8", P.astype(np.uint8)))
        elif np.all(P == np.round(P)) and P.min() >= 0 and P.max() <= 65535:
            variants.append(("uint16", P.astype(np.uint16)))
    if not reuse_buffer:
        # the same cloud and plane in other units (mol instead of micromol and back): the slice is equivariant, so the answer
        # divided by the unit factor is decided by the very same oracle and tolerances as the plain one
        variants += [("float-unit-1e-6", P * 1e-6), ("float-unit-1e6", P * 1e6)]
    for c, (dt, Parg) in itertools.product(cs, variants):
        uf = 1e-6 if dt == "float-unit-1e-6" else (1e6 if dt == "float-unit-1e6" else 1.0)
        if uf != 1.0 and np.min(np.abs(psum - c)) <= 1e-9 * scale:
            # a plane through a cloud point: after scaling, c * uf and the point's coordinate sum round differently, so the
            # rescaled problem is a different (ill-conditioned) one; only planes clear of every cloud point are rescaled
            continue
        rec.path()
        rec.trans()
        try:
            R = np.asarray(dreye.proj_P_to_simplex(Parg, c * uf), dtype=float) / uf
        except Exception as e:  # noqa
            _v(rec, "e", dict(sig, api="proj_P_to_simplex", **exc_sig(e)), "proj_P_to_simplex raised %r" % (e,), dict(cloud=name, c=c),
               script="import numpy as np, dreye\nprint(dreye.proj_P_to_simplex(np.array(%r), %r))\n" % (P.tolist(), c))
            rec.outcome("slice/exception")
            continue
        # oracle: all-pairs segment / plane intersections
        Opts = [p for p, s in zip(P, psum) if abs(s - c) <= 1e-12]
        for i, j in itertools.combinations(range(len(P)), 2):
            si, sj = psum[i], psum[j]
            if (si - c) * (sj - c) < 0:
                t = (c - si) / (sj - si)
                Opts.append(P[i] + t * (P[j] - P[i]))
        Opts = np.array(Opts)
        bad = None
        if R.ndim != 2 or R.shape[1] != d or len(R) == 0 or not np.all(np.isfinite(R)):
            bad = ("e", "malformed result %s" % (R.shape,))
        elif np.max(np.abs(R.sum(1) - c)) > 1e-9 * scale:
            bad = ("e", "returned points do not sum to c")
        else:
            if len(np.unique(np.round(Opts, 9), axis=0)) >= 2:
                rec.distinct((name, c, dt))
            d1 = max(O.hull_dist(Opts, r) for r in R)
            d2 = max(O.hull_dist(R, o) for o in Opts)
            if d1 > 1e-7 * scale:
                bad = ("f", "a returned point lies outside the intersection of the hull with the plane (distance %.3g)" % d1)
            elif d2 > 1e-7 * scale:
                bad = ("f", "the returned points do not span the whole intersection of the hull with the plane (missing part at distance %.3g)" % d2)
        rec.outcome("slice/%s" % ("ok" if bad is None else "bad"))
        if bad:
            _v(rec, bad[0], dict(sig, api="proj_P_to_simplex", what=bad[1][:40]), bad[1] + " (c=%s, %s-typed cloud)" % (c, dt), dict(cloud=name, c=c, dtype=dt), observed=R, expected=Opts,
               script="import numpy as np, dreye\nprint(dreye.proj_P_to_simplex(np.array(%r), %r))\n" % (Parg.tolist(), c * uf))


def run_unit(unit, rec):
    import dreye
    from scipy.spatial import ConvexHull

    d = unit["dim"]
    if d == 2:
        queries = np.array(list(itertools.product(np.arange(-1.0, 3.01, 1.0), repeat=2)))
        queries = np.vstack([queries, queries[::2] * 0.9 + 0.17])
    elif d == 3:
        queries = np.array(list(itertools.product((-1.0, 0.0, 0.5, 1.0, 2.0), repeat=3)))
    else:
        queries = np.array(list(itertools.product((-1.0, 0.5, 3.0), repeat=d)))[:: (1 if d == 4 else 3)]
    dirs = np.array([p for p in itertools.product((-1.0, 0.0, 1.0), repeat=d) if any(p)])
    if len(dirs) > 80:
        dirs = dirs[:: len(dirs) // 80]
    dirs = np.vstack([dirs, dirs[:5] * 0.37 + 0.11])
    # only the direction matters: very short and very long query vectors as well
    dirs = np.vstack([dirs, dirs[::7] * 1e-9, dirs[3::7] * 1e-5, dirs[5::7] * 1e6, (dirs[:4] * 0.37 + 0.11) * 1e-8])
    ncl = 0
    for name, P in _clouds(unit):
        ncl += 1
        rec.state(name)
        hr = O.hull_hrep(P)
        flat = hr is None
        sig = dict(dim=d, flat=flat)
        scale = max(1.0, float(np.max(np.abs(P))))
        if not flat:
            N, off = hr
            eq_sources = [("own", np.hstack([N, off[:, None]]))]
            # the same half-spaces with every row multiplied by its own positive factor (hand-written facets such as 2x - 3 <= 0)
            eq_sources.append(("own-scaled-rows", np.hstack([N, off[:, None]]) * (0.5 + (np.arange(len(off)) % 4))[:, None]))
            try:
                eq_sources.append(("qhull", ConvexHull(P).equations))
            except Exception:  # noqa
                pass
            for src, eq in eq_sources:
                # ---- nearest point
                rec.path()
                rec.trans()
                try:
                    Pr = np.asarray(dreye.proj_B_to_hull(queries, eq))
                except Exception as e:  # noqa
                    _v(rec, "a", dict(sig, api="proj_B_to_hull", **exc_sig(e)), "proj_B_to_hull raised %r" % (e,), dict(cloud=name, eq=src))
                    Pr = None
                if Pr is not None:
                    mg = O.hull_margin(P, queries)
                    for j, (b, p) in enumerate(zip(queries, Pr)):
                        inside = mg[j] >= -1e-12
                        if not inside:
                            rec.distinct((name, src, j))
                        feas = float(np.max(p @ N.T + off))
                        vi = float(np.max((P - p) @ (b - p)))
                        bad = None
                        if feas > 1e-9 * scale:
                            bad = ("a", "projection lies outside the hull (facet slack %.3g)" % feas)
                        elif vi > 1e-9 * scale * scale:
                            bad = ("b", "projection is not the nearest point of the hull (variational inequality violated by %.3g)" % vi)
                        elif inside and np.max(np.abs(p - b)) > 1e-9 * scale:
                            bad = ("c", "a point inside the hull was moved by %.3g" % np.max(np.abs(p - b)))
                        rec.outcome("proj-%s/%s" % ("inside" if inside else "outside", "ok" if bad is None else "bad"))
                        if bad:
                            _v(rec, bad[0], dict(sig, api="proj_B_to_hull", what=bad[1][:30], eqsrc=src), bad[1], dict(cloud=name, eq=src, q=j), observed=p, expected=dict(P=P, b=b),
                               script="import numpy as np, dreye\nfrom scipy.spatial import ConvexHull\nP=np.array(%r)\nprint(dreye.proj_B_to_hull(np.array([%r]), ConvexHull(P).equations))\n" % (P.tolist(), b.tolist()))
                # ---- boundary multiple (hull must contain the origin in its interior)
                centre = P[np.unique(np.flatnonzero(np.abs(P @ N.T + off).min(1) <= 1e-9 * scale))].mean(0)
                eq0 = eq.copy()
                eq0[:, -1] = eq[:, -1] + eq[:, :-1] @ centre  # hull translated by -centre
                N0, off0 = N, off + N @ centre
                if np.max(off0) < -1e-9:
                    rec.path()
                    rec.trans(2)
                    try:
                        al = np.asarray(dreye.alpha_for_B_with_P(dirs, eq0))
                        Bw = np.asarray(dreye.B_with_P(dirs, eq0))
                    except Exception as e:  # noqa
                        _v(rec, "d", dict(sig, api="alpha_for_B_with_P", **exc_sig(e)), "alpha_for_B_with_P raised %r" % (e,), dict(cloud=name, eq=src))
                        al = None
                    if al is not None:
                        for j, (b, a) in enumerate(zip(dirs, al)):
                            rec.distinct((name, src, "dir", j))
                            val = float(np.max((a * b) @ N0.T + off0)) if np.isfinite(a) else np.nan
                            ok = np.isfinite(a) and a > 0 and abs(val) <= 1e-9 * scale and np.max(np.abs(Bw[j] - a * b)) <= 1e-12 * scale * max(1.0, float(np.max(np.abs(a * b))))
                            rec.outcome("alpha/%s" % ("ok" if ok else "bad"))
                            if not ok:
                                _v(rec, "d", dict(sig, api="alpha_for_B_with_P", what="incidence", eqsrc=src), "alpha=%r: the multiple is not the positive multiple on the hull boundary (max facet value %.3g)" % (a, val),
                                   dict(cloud=name, eq=src, dir=j), observed=dict(alpha=a, B_with_P=Bw[j]), expected=dict(P=P - centre, b=b))
        # ---- slice with the plane sum = c
        _slices(rec, dreye, name, P, d, sig, scale, False)
    # second pass over the same clouds: every cloud copied into ONE work array per shape
    for name, P in _clouds(unit):
        _slices(rec, dreye, name, P, d, dict(dim=d, flat=O.hull_hrep(P) is None), max(1.0, float(np.max(np.abs(P)))), True)
    rec.sample(dict(dim=d, size=unit["size"], clouds=ncl, queries=len(queries), directions=len(dirs)), cap=1)
