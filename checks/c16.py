"""
C16 - barycentric and n-sphere coordinate transforms are exact mutual inverses.

Dimensions 2..12 x lattice points (origin, +-e_i, +-e_i+-e_j, all of {-1,0,1}^d for d<=6, zero tails of every
length, a generic dyadic set) x L1 variants x centred/un-centred.  Oracle: closed-form geometry.
"""

import itertools

import numpy as np

from mc.kernel import exc_sig

PROPERTY = "C16"
RULE = ("unit = (transform family, dimension); paths = one call per point set and variant; non-trivial = points that are not the origin; "
        "distinct by (dimension, variant, point)")
ASSUMPTIONS = ["dimensions 2..12 (statement's range)", "round-trip tolerance 1e-12 (barycentric), 1e-11 relative (n-sphere; 3e-8 for points within 1e-6 of a coordinate axis/plane, where an inverse-cosine based conversion is ill-conditioned)"]
BOUNDS = {"quick": "d in 2..12; {-1,0,1}^d exhaustively for d<=5; call histories of length <= 3 (9-call alphabet) for d in 2..7", "thorough": "{-1,0,1}^d exhaustively for d<=8, {-2..2}^d for d<=4; call histories of length <= 4 (d <= 6) / 3 (d <= 12)"}
TECHNIQUE = "exhaustive lattice of points (axes, planes, origin, signs, zero tails) in every dimension 2..12, closed-form oracle; plus every call history up to depth 3-4 over a 9-call alphabet on freshly re-executed modules (differential oracle: the same call in a fresh state)"
LEVEL_TEXT = "every lattice point of every dimension is converted by the real functions; unit edges, affinity, inverse round trips, L1 sums, scale invariance, radius and angle ranges are decided in closed form"
LEVEL_NOTE = "angles themselves are not compared where the statement leaves them undefined (zero tails), only ranges and the round trip"
KE = ("exc", "msg", "api", "dim")
KV = ("api", "what", "variant", "pointclass")


def _v(rec, clause, sig, *a, **k):
    rec.violation(clause, sig, *a, keys=(KE if "exc" in sig else KV), **k)


def units(tier, seed):
    out = []
    for d in range(2, 13):
        out.append(dict(kind="bary", d=d, tier=tier, seed=seed))
        out.append(dict(kind="sphere", d=d, tier=tier, seed=seed))
    for d in range(2, 13):
        # call histories: the conversions are functions of their arguments only
        if tier == "quick" and d > 7:
            continue
        out.append(dict(kind="history", d=d, depth=(3 if tier == "quick" or d > 6 else 4), tier=tier, seed=seed))
    return out


def _fresh_modules():
    """the two modules re-executed from source: module-level state (caches, tables) as in a new process"""
    import importlib

    bm = importlib.reload(importlib.import_module("dreye.api.barycentric"))
    sm = importlib.reload(importlib.import_module("dreye.api.spherical"))
    return bm, sm


def _history_ops(d, tier, seed):
    """alphabet: (name, function of (bm, sm) -> result); arguments are fixed arrays built here (and must stay untouched)"""
    P = _points(d, "quick", seed, signed=False)
    P = P[P.sum(1) > 0][:: max(1, len(P) // 24)]
    Pn = P / P.sum(1, keepdims=True)
    Xs = _points(d, "quick", seed, signed=True)[:: max(1, 3 ** min(d, 5) // 24)]
    bm, sm = _fresh_modules()
    Yp = np.asarray(bm.barycentric_to_cartesian(Pn, center=False))
    bm, sm = _fresh_modules()
    Yc = np.asarray(bm.barycentric_to_cartesian(Pn, center=True))
    bm, sm = _fresh_modules()
    Ys = np.asarray(sm.cartesian_to_spherical(Xs))
    args = dict(P=P, Pn=Pn, Xs=Xs, Yp=Yp, Yc=Yc, Ys=Ys)
    ops = [
        ("b2c", "barycentric_to_cartesian(Pn, center=False)", lambda bm, sm: bm.barycentric_to_cartesian(Pn, center=False)),
        ("b2c-centred", "barycentric_to_cartesian(Pn, center=True)", lambda bm, sm: bm.barycentric_to_cartesian(Pn, center=True)),
        ("c2b", "cartesian_to_barycentric(Yp, centered=False)", lambda bm, sm: bm.cartesian_to_barycentric(Yp, centered=False)),
        ("c2b-centred", "cartesian_to_barycentric(Yc, centered=True)", lambda bm, sm: bm.cartesian_to_barycentric(Yc, centered=True)),
        ("c2b-centred-L1", "cartesian_to_barycentric(Yc, L1=2.5, centered=True)", lambda bm, sm: bm.cartesian_to_barycentric(Yc, L1=2.5, centered=True)),
        ("reduce", "barycentric_dim_reduction(P, center=False)", lambda bm, sm: bm.barycentric_dim_reduction(P, center=False)),
        ("reduce-centred", "barycentric_dim_reduction(P, center=True)", lambda bm, sm: bm.barycentric_dim_reduction(P, center=True)),
        ("c2s", "cartesian_to_spherical(Xs)", lambda bm, sm: sm.cartesian_to_spherical(Xs)),
        ("s2c", "spherical_to_cartesian(Ys)", lambda bm, sm: sm.spherical_to_cartesian(Ys)),
    ]
    return ops, args


def _run_history(unit, rec):
    d, depth = unit["d"], unit["depth"]
    ops, args = _history_ops(d, unit["tier"], unit["seed"])
    pristine = {k: v.copy() for k, v in args.items()}
    sig = dict(dim=d, api="call-history")
    # reference model: every operation's answer in a fresh state (no earlier call)
    ref = {}
    for name, _, fn in ops:
        bm, sm = _fresh_modules()
        rec.trans()
        ref[name] = np.array(fn(bm, sm), dtype=float)
    # the references themselves: the stored images are inverted by the reverse conversions
    if np.max(np.abs(ref["c2b"] - args["Pn"])) > 1e-12 or np.max(np.abs(ref["c2b-centred"] - args["Pn"])) > 1e-12:
        _v(rec, "c", dict(sig, what="fresh-round-trip", variant="history"), "fresh state: reverse conversion does not invert the forward one", dict(d=d))
        return
    names = [o[0] for o in ops]
    fns = {o[0]: o[2] for o in ops}
    texts = {o[0]: o[1] for o in ops}
    for length in range(2, depth + 1):
        for seq in itertools.product(names, repeat=length):
            # prefixes are covered by the shorter sequences: only the last call is new
            bm, sm = _fresh_modules()
            rec.path()
            bad = None
            for k, name in enumerate(seq):
                rec.trans()
                try:
                    out = np.array(fns[name](bm, sm), dtype=float)
                except Exception as e:  # noqa
                    bad = ("c", "call %d (%s) raised %r" % (k + 1, name, e))
                    break
                if k == length - 1 or length == 2:
                    if out.shape != ref[name].shape or not np.array_equal(out, ref[name]):
                        dev = float(np.max(np.abs(out - ref[name]))) if out.shape == ref[name].shape else float("nan")
                        bad = ("c", "the result of %s depends on the calls made before it (differs by %.3g from its result in a fresh state)" % (texts[name], dev))
                        break
            if bad is None and any(not np.array_equal(args[k], pristine[k]) for k in args):
                bad = ("c", "an argument array was modified")
            rec.distinct((d, seq))
            rec.outcome("history/%s" % ("same" if bad is None else "differs"))
            if bad:
                scr = ("import numpy as np\nfrom dreye.api.barycentric import *\nfrom dreye.api.spherical import *\n" + "".join("%s = np.array(%r)\n" % (k, pristine[k].tolist()) for k in pristine)
                       + "".join("r%d = %s\n" % (i, texts[nm]) for i, nm in enumerate(seq)) + "print(r%d)\n" % (len(seq) - 1))
                _v(rec, bad[0], dict(sig, what="history:" + "->".join(seq[-2:]), variant="history"), bad[1], dict(d=d, sequence=list(seq)), script=scr.replace("\\n", "\n"))
                for k in args:
                    args[k][...] = pristine[k]
    rec.sample(dict(kind="history", d=d, depth=depth, alphabet=names), cap=1)


def _points(d, tier, seed, signed=True):
    pts = [np.zeros(d)]
    for i in range(d):
        e = np.zeros(d)
        e[i] = 1.0
        pts.append(e)
        if signed:
            pts.append(-e)
    for i, j in itertools.combinations(range(d), 2):
        for si, sj in itertools.product((1, -1) if signed else (1,), repeat=2):
            e = np.zeros(d)
            e[i], e[j] = si, sj
            pts.append(e)
    full = 5 if tier == "quick" else 8
    if d <= full:
        vals = (-1.0, 0.0, 1.0) if signed else (0.0, 1.0, 2.0)
        pts += [np.array(p) for p in itertools.product(vals, repeat=d)]
    if tier != "quick" and d <= 4:
        vals = (-2.0, -1.0, 0.0, 1.0, 2.0) if signed else (0.0, 0.5, 1.0, 2.0, 3.0)
        pts += [np.array(p) for p in itertools.product(vals, repeat=d)]
    # zero tails / heads of every length with generic dyadic values
    g = ((np.arange(d) * 5 + 3) % 7 - 3) / 4.0 if signed else ((np.arange(d) * 5 + 3) % 7 + 1) / 4.0
    for k in range(1, d):
        a = g.copy()
        a[k:] = 0
        pts.append(a)
        b = g.copy()
        b[:k] = 0
        pts.append(b)
        if signed:
            c = g.copy()
            c[k:] = 0
            c[k - 1] = -abs(c[k - 1]) - 0.25
            pts.append(c)
    rng = np.random.default_rng(77 + seed * 13 + d)
    G = np.round(rng.uniform(-3, 3, (12, d)) * 16) / 16 if signed else np.round(rng.uniform(0.0, 3, (12, d)) * 16) / 16
    pts += list(G)
    pts.append(g)
    if signed:
        # small absolute magnitudes (only the direction and the norm matter) and points NEAR but not ON an axis / plane
        pts += list(G[:6] * 1e-9) + list(G[6:10] * 1e-12) + [g * 1e-10]
        for k in range(1, d):
            a = g.copy()
            a[k:] = 1e-9 * np.where(np.arange(d - k) % 2 == 0, 1.0, -1.0)
            pts.append(a)
    return np.array(pts)


def _rt_tol(x):
    """relative round-trip tolerance.  Angles obtained through an inverse cosine lose accuracy near 0 and pi: a component
    that is tiny relative to the norm of its tail is only recoverable to about sqrt(machine eps) of that tail.  Such
    near-axis points are held to 3e-8 (2 sqrt(eps)); well-conditioned points to 1e-11."""
    x = np.asarray(x, dtype=float)
    worst = 1.0
    for i in range(len(x) - 1):
        t = np.linalg.norm(x[i:])
        if t > 0:
            worst = min(worst, 1.0 - abs(x[i]) / t)
    return 3e-8 if worst < 1e-6 else 1e-11


def run_unit(unit, rec):
    import dreye
    from dreye.api.barycentric import barycentric_dim_reduction

    d, tier, seed = unit["d"], unit["tier"], unit["seed"]
    rec.state((unit["kind"], d))
    if unit["kind"] == "history":
        return _run_history(unit, rec)
    if unit["kind"] == "bary":
        n = d  # number of barycentric coordinates
        sig = dict(dim=n)
        # a: unit edges (both variants)
        for center in (False, True):
            rec.path()
            rec.trans()
            try:
                C = np.asarray(dreye.barycentric_to_cartesian(np.eye(n), center=center))
            except Exception as e:  # noqa
                _v(rec, "a", dict(sig, api="barycentric_to_cartesian", **exc_sig(e)), "raised %r" % (e,), dict(n=n, center=center))
                return
            D = np.linalg.norm(C[:, None, :] - C[None, :, :], axis=-1)
            off = D[~np.eye(n, dtype=bool)]
            rec.distinct(("edges", n, center))
            ok = C.shape == (n, n - 1) and np.all(np.abs(off - 1.0) <= 1e-12)
            rec.outcome("unit-edges/%s" % ("ok" if ok else "bad"))
            if not ok:
                _v(rec, "a", dict(sig, api="barycentric_to_cartesian", what="unit-edges", variant="centered" if center else "plain"),
                   "corner images are not pairwise at distance 1 in dimension %d" % n, dict(n=n, center=center), observed=off[:6])
            if center:
                # centred: the centroid of the simplex maps to the origin
                rec.trans()
                z = np.asarray(dreye.barycentric_to_cartesian(np.ones((1, n)) / n, center=True))
                if np.max(np.abs(z)) > 1e-12:
                    _v(rec, "a", dict(sig, api="barycentric_to_cartesian", what="centre", variant="centered"), "centred variant does not map the centroid to the origin", dict(n=n), observed=z)
        P = _points(n, tier, seed, signed=False)
        P = P[P.sum(1) > 0]
        Pn = P / P.sum(1, keepdims=True)
        for center in (False, True):
            var = "centered" if center else "plain"
            rec.path()
            rec.trans(2)
            Y = np.asarray(dreye.barycentric_to_cartesian(Pn, center=center))
            # b: affine
            lam = 0.375
            mix = lam * Pn[:-1] + (1 - lam) * Pn[1:]
            Ym = np.asarray(dreye.barycentric_to_cartesian(mix, center=center))
            if np.max(np.abs(Ym - (lam * Y[:-1] + (1 - lam) * Y[1:]))) > 1e-12:
                _v(rec, "b", dict(sig, api="barycentric_to_cartesian", what="affine", variant=var), "conversion is not affine", dict(n=n, center=center))
            # c/d: inverse, L1 variants
            for L1name, L1 in (("none", None), ("one", 1.0), ("scalar", 2.5), ("per-point", 0.5 + 0.25 * np.arange(len(Pn))), ("tiny", 1e-6), ("tiny-per-point", 1e-9 * (1.0 + np.arange(len(Pn)) % 7)), ("huge", 1e9)):
                rec.path()
                rec.trans()
                try:
                    Xb = np.asarray(dreye.cartesian_to_barycentric(Y, L1=L1, centered=center))
                except Exception as e:  # noqa
                    _v(rec, "c", dict(sig, api="cartesian_to_barycentric", **exc_sig(e)), "raised %r" % (e,), dict(n=n, center=center, L1=L1name))
                    continue
                tot = 1.0 if L1 is None else L1
                exp = Pn * (np.asarray(tot)[..., None] if np.ndim(tot) else tot)
                for i in range(len(Pn)):
                    rec.distinct((n, var, L1name, i))
                # relative to the requested totals (captures may be expressed in any unit)
                totv = np.broadcast_to(np.asarray(tot, dtype=float), (len(Pn),))
                okc = Xb.shape == exp.shape and bool(np.all(np.abs(Xb - exp) <= 1e-12 * totv[:, None]))
                oks = Xb.shape == exp.shape and bool(np.all(np.abs(Xb.sum(1) - totv) <= 1e-12 * totv))
                rec.outcome("inverse/%s" % ("ok" if okc else "bad"), len(Pn))
                if not oks:
                    _v(rec, "d", dict(sig, api="cartesian_to_barycentric", what="L1-sum", variant=var + "/" + L1name), "returned coordinates do not sum to the requested L1", dict(n=n, center=center, L1=L1name))
                elif not okc:
                    _v(rec, "c", dict(sig, api="cartesian_to_barycentric", what="round-trip", variant=var + "/" + L1name), "reverse conversion does not invert the forward one (max dev %.3g)" % np.max(np.abs(Xb - exp)),
                       dict(n=n, center=center, L1=L1name), observed=Xb[:3], expected=exp[:3])
            # e: chromatic reduction invariant to scale
            rec.trans(3)
            R1 = np.asarray(barycentric_dim_reduction(P, center=center))
            for t in (0.5, 3.0):
                Rt = np.asarray(barycentric_dim_reduction(P * t, center=center))
                if np.max(np.abs(Rt - R1)) > 1e-12:
                    _v(rec, "e", dict(sig, api="barycentric_dim_reduction", what="scale-invariance", variant=var), "chromatic reduction changes with the overall scale (t=%s)" % t, dict(n=n, center=center, t=t))
            # totals within 1e-5 .. 1e-7 of one (float32-normalised data, chromaticities times 1 + 6e-6)
            for t in (1.0 + 6e-6, 1.0 - 8e-6, 1.0 + 3e-7):
                rec.trans()
                Rt = np.asarray(barycentric_dim_reduction(Pn * t, center=center))
                if np.max(np.abs(Rt - Y)) > 1e-12:
                    _v(rec, "e", dict(sig, api="barycentric_dim_reduction", what="scale-invariance", variant=var), "chromatic reduction changes with the overall scale (t=%r, max dev %.3g)" % (t, np.max(np.abs(Rt - Y))), dict(n=n, center=center, t=t))
            # integer-typed capture vectors (photon counts): same answers as the same numbers as floats
            Pint = P[np.all(P == np.round(P), axis=1)].astype(np.int64)
            if len(Pint):
                rec.trans(4)
                try:
                    same = (np.array_equal(np.asarray(barycentric_dim_reduction(Pint, center=center)), np.asarray(barycentric_dim_reduction(Pint.astype(float), center=center)))
                            and np.array_equal(np.asarray(dreye.barycentric_to_cartesian(Pint, center=center)), np.asarray(dreye.barycentric_to_cartesian(Pint.astype(float), center=center))))
                except Exception as e:  # noqa
                    same = False
                rec.outcome("int-typed/%s" % ("same" if same else "differs"))
                if not same:
                    _v(rec, "e", dict(sig, api="barycentric_dim_reduction", what="int-typed", variant=var), "integer-typed capture vectors are converted differently from the same values as floats", dict(n=n, center=center, dtype="int"))
            if np.max(np.abs(R1 - Y)) > 1e-12:
                _v(rec, "e", dict(sig, api="barycentric_dim_reduction", what="normalisation", variant=var), "chromatic reduction is not the conversion of the L1-normalised vector", dict(n=n, center=center))
        rec.sample(dict(kind="bary", n=n, points=len(Pn), example=Pn[3]), cap=1)
        return
    # ---- n-sphere
    sig = dict(dim=d)
    X = _points(d, tier, seed, signed=True)
    for form in ("batch", "rows"):
        sets = [X] if form == "batch" else [x[None] for x in X[:: max(1, len(X) // 40)]]
        for Xs in sets:
            rec.path()
            rec.trans(2)
            try:
                Y = np.asarray(dreye.cartesian_to_spherical(Xs))
                Xr = np.asarray(dreye.spherical_to_cartesian(Y))
            except Exception as e:  # noqa
                _v(rec, "h", dict(sig, api="cartesian_to_spherical", **exc_sig(e)), "raised %r" % (e,), dict(d=d, form=form))
                continue
            if Y.shape != Xs.shape or Xr.shape != Xs.shape:
                _v(rec, "h", dict(sig, api="cartesian_to_spherical", what="shape"), "wrong shapes", dict(d=d, form=form))
                continue
            nrm = np.linalg.norm(Xs, axis=1)
            for i, x in enumerate(Xs):
                pc = "origin" if not x.any() else ("axis" if np.count_nonzero(x) == 1 else ("zero-tail" if x[-1] == 0 else "generic"))
                if x.any() and form == "batch":
                    rec.distinct((d, x.tobytes()))
                y = Y[i]
                bad = None
                if not np.all(np.isfinite(y)):
                    bad = ("g", "non-finite spherical coordinates")
                elif abs(y[0] - nrm[i]) > 1e-12 * nrm[i] + 1e-300:
                    bad = ("f", "radius is not the Euclidean norm")
                elif np.any(y[1:-1] < -1e-15) or np.any(y[1:-1] > np.pi + 1e-15):
                    bad = ("g", "a polar angle is outside [0, pi]")
                elif y[-1] < -1e-15 or y[-1] > 2 * np.pi + 1e-15:
                    bad = ("g", "the azimuth is outside [0, 2 pi]")
                elif np.max(np.abs(Xr[i] - x)) > _rt_tol(x) * nrm[i] + 1e-300:
                    bad = ("h", "converting back does not recover the point (max dev %.3g)" % np.max(np.abs(Xr[i] - x)))
                rec.outcome("sphere-%s/%s" % (pc, "ok" if bad is None else "bad"))
                if bad:
                    _v(rec, bad[0], dict(sig, api="cartesian_to_spherical", what=bad[1][:28], pointclass=pc), "%s (d=%d, x=%s)" % (bad[1], d, x.tolist()), dict(d=d, form=form, i=i), observed=dict(spherical=y, back=Xr[i]), expected=x,
                       script="import numpy as np, dreye\nX=np.array([%r])\nY=dreye.cartesian_to_spherical(X)\nprint(Y, dreye.spherical_to_cartesian(Y))\n" % (x.tolist(),))
    # integer-typed inputs: lattice points as int arrays; integer spherical coordinates (radius 0..3, angles 0..3 / 0..6)
    rec.path()
    rec.trans(4)
    Xi = X[np.all(X == np.round(X), axis=1)].astype(np.int64)
    Yi = np.array([[(3 * i + j) % 4 if j < d - 1 else (5 * i + 2) % 7 for j in range(d)] for i in range(12)], dtype=np.int64)
    for api, fn, arg in (("cartesian_to_spherical", dreye.cartesian_to_spherical, Xi), ("spherical_to_cartesian", dreye.spherical_to_cartesian, Yi)):
        try:
            ri, rf = np.asarray(fn(arg), dtype=float), np.asarray(fn(arg.astype(float)), dtype=float)
            same = ri.shape == rf.shape and bool(np.all(np.abs(ri - rf) <= 1e-12 * (1 + np.abs(rf))))
        except Exception as e:  # noqa
            same = False
        rec.outcome("sphere-int-typed/%s" % ("same" if same else "differs"))
        if not same:
            _v(rec, "h", dict(sig, api=api, what="int-typed", pointclass="lattice"), "%s: integer-typed coordinates are converted differently from the same values as floats" % api, dict(d=d, dtype="int"),
               script="import numpy as np, dreye\nA = np.array(%r)\nprint(dreye.%s(A), dreye.%s(A.astype(float)))\n" % (arg[:4].tolist(), api, api))
    rec.sample(dict(kind="sphere", d=d, points=len(X), example=X[5]), cap=1)
