"""
C20 - irradiance <-> photon flux conversion is the physical law and its exact inverse.

Wavelength sets x basis spectra x shapes / wavelength axis x prefix x plain arrays | pint quantities x return_units.
Oracle: E = I * lambda[nm] * 1e-9 / (h c N_A) with the exact SI (2019) constants.
"""

import itertools

import numpy as np

from mc.kernel import exc_sig

PROPERTY = "C20"
RULE = ("unit = (direction, input kind); paths = one conversion call per (wavelength set, spectrum, layout, prefix, return_units); "
        "non-trivial = non-zero spectrum; distinct by all of these")
ASSUMPTIONS = ["exact SI constants h = 6.62607015e-34 J s, c = 299792458 m/s, N_A = 6.02214076e23 / mol", "relative tolerance 1e-12"]
BOUNDS = {"quick": "wavelengths {100,300,555,1000,2000} and all ascending 3-subsets; one-hot basis and {-1,1/2,2} combinations; ranks 0-3 with the wavelength on every axis",
          "thorough": "same plus 4-subsets and all prefix x unit-input combinations"}
TECHNIQUE = "exhaustive menu of wavelength sets x basis spectra x layouts x prefixes x unit handling, closed-form oracle"
LEVEL_TEXT = "every combination of the menu is converted by irr2flux / flux2irr and compared with the closed-form law; the inverse, linearity, element-wise action along the stated axis and unit/plain agreement are decided exactly (1e-12)"
LEVEL_NOTE = "pint registry as shipped; linearity makes the one-hot basis decisive"
KE = ("exc", "msg", "api", "input", "axis")
KV = ("api", "what", "input", "prefix", "layout", "wavelength_unit")

H, C, NA = 6.62607015e-34, 299792458.0, 6.02214076e23
PREFIX = {None: 1.0, "": 1.0, "milli": 1e-3, "micro": 1e-6, "nano": 1e-9}
WLS = [100.0, 300.0, 555.0, 1000.0, 2000.0]


def _v(rec, clause, sig, *a, **k):
    rec.violation(clause, sig, *a, keys=(KE if "exc" in sig else KV), **k)


def units(tier, seed):
    out = [dict(direction=d, input=i, tier=tier) for d in ("irr2flux", "flux2irr") for i in ("plain", "pint")]
    # the unit-carrying route proper: quantity.to(unit, "flux", domain=wavelengths) / dreye.optional_to(..., domain=wavelengths)
    out += [dict(direction=d, input="context", tier=tier) for d in ("irr2flux", "flux2irr")]
    return out


def _ref(direction, vals, wl_b, prefix):
    f = wl_b * 1e-9 / (H * C * NA)
    return (vals * f if direction == "irr2flux" else vals / f) / PREFIX[prefix]


def _mag(x):
    return np.asarray(x.magnitude if hasattr(x, "magnitude") else x, dtype=float)


WL_UNITS = {"nm": 1.0, "micrometer": 1e-3, "m": 1e-9, "angstrom": 10.0}


def _run_context(unit, rec, dreye):
    direction, tier = unit["direction"], unit["tier"]
    ureg = dreye.ureg
    in_unit, out_dim = ("I", "E") if direction == "irr2flux" else ("E", "I")
    rec.state((direction, "context"))
    wsets = [tuple(WLS)] + list(itertools.combinations(WLS, 3)) + [(555.0,)]
    for wl in wsets:
        wl = np.array(wl)
        k = len(wl)
        spectra = [("onehot%d" % i, np.eye(k)[i]) for i in range(k)] + [("combo", np.array([(-1.0, 0.5, 2.0)[i % 3] for i in range(k)]))]
        for (sname, sp), prefix, (wu, wf), route in itertools.product(spectra, ("", "milli", "micro", "nano"), WL_UNITS.items(), ("to", "optional_to")):
            for lname, arr, w in (("1d", sp, wl), ("2d-last", np.stack([sp, 2 * sp, -sp]), wl), ("2d-colwl", np.multiply.outer(sp, np.array([1.0, -0.5])), wl[:, None])):
                if tier == "quick" and lname != "1d" and (prefix not in ("", "micro") or sname not in ("combo", "onehot0")):
                    continue
                q = arr * ureg(in_unit)
                wq = (w * wf) * ureg(wu)
                tgt = prefix + out_dim
                exp = _ref(direction, arr, np.asarray(w, dtype=float), prefix)
                sig = dict(api=direction, input="context/" + route, prefix=prefix, layout=lname, axis="none", wavelength_unit=wu)
                case = dict(wl=wl.tolist(), spectrum=sname, layout=lname, prefix=prefix, wavelength_unit=wu, route=route)
                rec.path()
                rec.trans()
                try:
                    out = q.to(tgt, "flux", domain=wq) if route == "to" else dreye.optional_to(q, tgt, domain=wq)
                except Exception as e:  # noqa
                    _v(rec, "e", dict(sig, **exc_sig(e)), "unit conversion in the flux context raised %r" % (e,), case,
                       script="import numpy as np, dreye\nq = np.array(%r) * dreye.ureg(%r)\nw = np.array(%r) * dreye.ureg(%r)\nprint(q.to(%r, 'flux', domain=w))\n" % (np.asarray(arr).tolist(), in_unit, (np.asarray(w) * wf).tolist(), wu, tgt))
                    rec.outcome("exception")
                    continue
                rec.distinct((direction, "context", tuple(wl), sname, lname, prefix, wu, route))
                got = _mag(out)
                ok = got.shape == np.shape(exp) and np.all(np.abs(got - exp) <= 1e-12 * np.abs(exp) + 1e-300)
                rec.outcome("context-value/%s" % ("ok" if ok else "bad"))
                if not ok:
                    _v(rec, "e", dict(sig, what="value"), "the unit-carrying conversion (wavelengths in %s) differs from I*lambda/(h c N_A) (or its inverse)" % wu, case, observed=got.ravel()[:12], expected=np.ravel(exp)[:12],
                       script="import numpy as np, dreye\nq = np.array(%r) * dreye.ureg(%r)\nw = np.array(%r) * dreye.ureg(%r)\nprint(q.to(%r, 'flux', domain=w))\n" % (np.asarray(arr).tolist(), in_unit, (np.asarray(w) * wf).tolist(), wu, tgt))
    rec.sample(dict(direction=direction, input="context", wavelength_units=list(WL_UNITS)), cap=1)


def run_unit(unit, rec):
    import dreye

    if unit["input"] == "context":
        return _run_context(unit, rec, dreye)
    direction, inp, tier = unit["direction"], unit["input"], unit["tier"]
    fn = getattr(dreye, direction)
    inv = getattr(dreye, "flux2irr" if direction == "irr2flux" else "irr2flux")
    ureg = dreye.ureg
    in_unit = "I" if direction == "irr2flux" else "E"
    out_unit_dim = "E" if direction == "irr2flux" else "spectralirradiance"
    rec.state((direction, inp))
    wsets = [tuple(WLS)] + list(itertools.combinations(WLS, 3)) + [(555.0,)]
    if tier != "quick":
        wsets += list(itertools.combinations(WLS, 4))
    for wl in wsets:
        wl = np.array(wl)
        k = len(wl)
        spectra = [("onehot%d" % i, np.eye(k)[i]) for i in range(k)]
        spectra += [("combo", np.array([(-1.0, 0.5, 2.0)[i % 3] for i in range(k)])), ("zero", np.zeros(k))]
        for prefix in (None, "", "milli", "micro", "nano"):
            for sname, sp in spectra:
                # layouts: (array, axis argument or None, broadcast wavelength)
                lay = [("1d", sp, None, wl)]
                lay.append(("2d-last", np.stack([sp, 2 * sp, -sp]), None, wl))
                # the wavelength on EVERY axis of rank 2..4 arrays whose other dimensions have distinct sizes
                for rank in (2, 3, 4):
                    for a in range(rank):
                        others = [2, 3, 4][: rank - 1]
                        mult = np.arange(1, int(np.prod(others)) + 1, dtype=float).reshape(others) * 0.5 - 1.0
                        full = np.multiply.outer(mult, sp)  # wavelength last
                        full = np.moveaxis(full, -1, a)
                        lay.append(("%dd-axis%d" % (rank, a), full, a, wl))
                        if a == rank - 2:
                            lay.append(("%dd-axis-2" % rank, full, -2, wl))
                if k == 1:
                    lay.append(("scalar", float(sp[0] + 1.5), None, float(wl[0])))
                if k > 1:
                    # no axis argument: the wavelengths broadcast against the spectrum as given (column of wavelengths, wavelength on axis 0);
                    # a square block, so that a re-alignment with the last axis cannot show up as a shape error
                    sq = np.multiply.outer(sp, 0.5 + np.arange(k, dtype=float)) + np.multiply.outer(np.arange(k, dtype=float), np.ones(k)) * (sname == "combo")
                    lay.append(("2d-colwl-square", sq, None, wl[:, None], 0))
                    lay.append(("2d-colwl", sq[:, :2], None, wl[:, None], 0))
                for item in lay:
                    lname, arr, axis, w = item[:4]
                    wax = item[4] if len(item) > 4 else None
                    if prefix in ("", "nano", "milli") and lname not in ("1d", "2d-axis0", "2d-colwl-square") and tier == "quick":
                        continue
                    if tier == "quick" and lname.startswith("4d") and sname not in ("combo", "onehot0"):
                        continue
                    for ru in ((None,) if (sname != "combo") else (None, True, False)):
                        arr_np = np.asarray(arr, dtype=float)
                        ax = wax if wax is not None else ((arr_np.ndim - 1) if axis is None else axis % max(arr_np.ndim, 1))
                        shp = [1] * arr_np.ndim
                        if arr_np.ndim:
                            shp[ax] = -1
                        wl_b = np.asarray(w, dtype=float).reshape(shp) if arr_np.ndim else float(w)
                        if wax is not None:
                            w = np.asarray(w, dtype=float)
                        exp = _ref(direction, arr_np, wl_b, prefix)
                        if inp == "pint":
                            a_in = arr_np * ureg(in_unit)
                            w_in = (np.asarray(w, dtype=float) / 1000.0) * ureg("micrometer") if lname != "1d" else np.asarray(w, dtype=float) * ureg("nm")
                        else:
                            a_in, w_in = (arr if np.ndim(arr) else float(arr)), w
                        sig = dict(api=direction, input=inp, prefix=str(prefix), layout=lname, axis=("none" if axis is None else "given"))
                        case = dict(wl=wl.tolist(), spectrum=sname, layout=lname, prefix=prefix, return_units=ru)
                        kw = dict(prefix=prefix, return_units=ru)
                        if axis is not None:
                            kw["axis"] = axis
                        rec.path()
                        rec.trans()
                        try:
                            out = fn(a_in, w_in, **kw)
                        except Exception as e:  # noqa
                            _v(rec, "a" if inp == "plain" else "e", dict(sig, **exc_sig(e)), "%s raised %r" % (direction, e), case,
                               script="import numpy as np, dreye\nx = np.array(%r)%s\nprint(dreye.%s(x, np.array(%r), prefix=%r%s))\n" % (
                                   arr_np.tolist(), (" * dreye.ureg(%r)" % in_unit) if inp == "pint" else "", direction, np.asarray(w).tolist(), prefix, "" if axis is None else ", axis=%d" % axis))
                            rec.outcome("exception")
                            continue
                        if sname != "zero":
                            rec.distinct((direction, inp, tuple(wl), sname, lname, prefix, ru))
                        want_units = (inp == "pint") if ru is None else ru
                        has_u = hasattr(out, "magnitude") and hasattr(out, "units")
                        if has_u != want_units:
                            _v(rec, "f", dict(sig, what="unit-presence"), "result %s units although return_units=%r with %s input" % ("has" if has_u else "lacks", ru, inp), case)
                        elif has_u:
                            try:
                                tgt = ("%s%s" % ("" if prefix is None else prefix, out_unit_dim))
                                conv = out.to(tgt).magnitude
                                if not np.allclose(conv, _mag(out), rtol=1e-12, atol=0):
                                    _v(rec, "f", dict(sig, what="unit-prefix"), "returned quantity is not expressed in the requested prefix", case)
                            except Exception as e:  # noqa
                                _v(rec, "f", dict(sig, what="unit-dimension"), "returned quantity cannot be converted to %s: %r" % (tgt, e), case)
                        got = _mag(out)
                        ok = got.shape == np.shape(exp) and np.all(np.abs(got - exp) <= 1e-12 * np.abs(exp) + 1e-300)
                        rec.outcome("value/%s" % ("ok" if ok else "bad"))
                        if not ok:
                            _v(rec, "a" if inp == "plain" else "e", dict(sig, what="value"), "%s differs from I*lambda/(h c N_A) (or its inverse)" % direction, case, observed=got if got.size < 20 else got.ravel()[:20], expected=exp if np.size(exp) < 20 else np.ravel(exp)[:20])
                            continue
                        # integer-typed wavelengths (np.arange(300, 701, 5), the scalar 500): the same numbers as floats
                        if inp == "plain" and ru is None and sname in ("combo", "onehot0") and wax is None:
                            rec.trans()
                            try:
                                wi = np.asarray(w).astype(np.int64) if np.ndim(w) else int(w)
                                ow = _mag(fn(a_in, wi, **kw))
                                okw_ = ow.shape == np.shape(exp) and np.all(np.abs(ow - exp) <= 1e-12 * np.abs(exp) + 1e-300)
                            except Exception as e:  # noqa
                                okw_ = False
                            rec.outcome("int-typed-wavelengths/%s" % ("ok" if okw_ else "bad"))
                            if not okw_:
                                _v(rec, "a", dict(sig, what="int-typed wavelengths"), "%s with integer-typed wavelengths differs from the conversion with the same wavelengths as floats" % direction, dict(case, dtype="int-wavelengths"),
                                   script="import numpy as np, dreye\nx = np.array(%r)\nprint(dreye.%s(x, np.array(%r), prefix=%r%s))\n" % (arr_np.tolist(), direction, np.asarray(w).astype(np.int64).tolist(), prefix, "" if axis is None else ", axis=%d" % axis))
                        # small integer types for spectrum AND wavelengths (16-bit digitiser counts): no silent wrap-around
                        if inp == "plain" and ru is None and sname == "onehot0" and wax is None and arr_np.ndim >= 1 and prefix in (None, "micro"):
                            rec.trans()
                            try:
                                a16 = (np.abs(arr_np) * 300).astype(np.uint16)
                                w16 = np.asarray(w).astype(np.uint16)
                                exp16 = _ref(direction, a16.astype(float), wl_b, prefix)
                                o16 = _mag(fn(a16, w16, **kw))
                                ok16 = o16.shape == np.shape(exp16) and np.all(np.abs(o16 - exp16) <= 1e-12 * np.abs(exp16) + 1e-300)
                            except Exception as e:  # noqa
                                ok16 = False
                            rec.outcome("uint16-typed/%s" % ("ok" if ok16 else "bad"))
                            if not ok16:
                                _v(rec, "a", dict(sig, what="uint16-typed"), "%s of a uint16 spectrum with uint16 wavelengths differs from the conversion of the same values as floats" % direction, dict(case, dtype="uint16"),
                                   script="import numpy as np, dreye\nx = np.array(%r, dtype=np.uint16)\nw = np.array(%r, dtype=np.uint16)\nprint(dreye.%s(x, w, prefix=%r%s), dreye.%s(x.astype(float), w.astype(float), prefix=%r%s))\n" % (
                                       a16.tolist(), np.asarray(w).astype(int).tolist(), direction, prefix, "" if axis is None else ", axis=%d" % axis, direction, prefix, "" if axis is None else ", axis=%d" % axis))
                        # integer-typed spectra (photon counts, digitiser units): the same numbers as floats
                        if inp == "plain" and ru is None and arr_np.ndim >= 1 and np.all(arr_np * 4 == np.round(arr_np * 4)) and sname != "zero":
                            rec.trans()
                            try:
                                oi = _mag(fn((arr_np * 4).astype(np.int64), w_in, **kw))
                                oki = oi.shape == np.shape(exp) and np.all(np.abs(oi - 4 * exp) <= 1e-12 * np.abs(4 * exp) + 1e-300)
                            except Exception as e:  # noqa
                                oki = False
                            rec.outcome("int-typed/%s" % ("ok" if oki else "bad"))
                            if not oki:
                                _v(rec, "a", dict(sig, what="int-typed"), "%s of an integer-typed spectrum differs from the conversion of the same values as floats" % direction, dict(case, dtype="int"),
                                   script="import numpy as np, dreye\nx = np.array(%r)\nprint(dreye.%s(x, np.array(%r), prefix=%r%s))\n" % ((arr_np * 4).astype(np.int64).tolist(), direction, np.asarray(w).tolist(), prefix, "" if axis is None else ", axis=%d" % axis))
                        # b: exact inverse (plain round trip)
                        if ru in (None,) and sname in ("combo", "onehot0"):
                            rec.trans()
                            try:
                                back = inv(out, w_in, **dict(kw, prefix=None, return_units=False, **({} if direction == "flux2irr" else {})), **({"flux_units": ("%sE" % (prefix or ""))} if (direction == "irr2flux" and not has_u) else {}), **({"irr_units": ("%sI" % (prefix or ""))} if (direction == "flux2irr" and not has_u) else {}))
                                back = _mag(back)
                                if not (back.shape == arr_np.shape and np.all(np.abs(back - arr_np) <= 1e-12 * (np.abs(arr_np) + 1e-30) + 1e-300)):
                                    _v(rec, "b", dict(sig, what="inverse"), "the reverse conversion does not recover the input", case, observed=back if back.size < 20 else back.ravel()[:20], expected=arr_np if arr_np.size < 20 else arr_np.ravel()[:20])
                                rec.outcome("inverse/ok")
                            except Exception as e:  # noqa
                                _v(rec, "b", dict(sig, **exc_sig(e)), "reverse conversion raised %r" % (e,), case)
    rec.sample(dict(direction=direction, input=inp, wavelength_sets=len(wsets)), cap=1)
