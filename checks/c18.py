"""
C18 - gamut-size and divergence metrics equal their geometric / information definitions.

Clouds in 1-5 D (lattice sub-clouds, boxes, zonotopes = gamuts, flat clouds embedded in higher dimension) x the whole
hyperoctahedral group (d <= 3) + a rational rotation x translations x scalings x seeds; supersets by adding lattice
points; ALL pairs of integer vectors in {0..3}^k (k = 2..4) for the Jensen-Shannon divergence.
Oracles: brute-force hull volume in the affine span, perimeter/pi, zonotope mean-width formula, entropy identities.
"""

import itertools
import math

import numpy as np

from mc import alphabets as AL
from mc import build as B
from mc import oracles as O
from mc.kernel import exc_sig

PROPERTY = "C18"
RULE = ("unit = metric family x cloud family; paths = metric calls per (cloud, motion / scaling / superset / seed); non-trivial = clouds with positive size, "
        "vector pairs that are not identical; distinct by (cloud, transformation)")
ASSUMPTIONS = ["mean width is a Monte-Carlo estimate: compared with the closed form within the Hoeffding bound diam*sqrt(ln(2/1e-12)/(2n)), n = 20000 directions (about 2.7 % of the diameter); exact relations (homogeneity, translation, monotonicity) are asserted for a fixed seed to 1e-10",
               "the zero vector is excluded from the divergence (normalisation undefined)"]
BOUNDS = {"quick": "2-D lattice sub-clouds of size 3-4 (210), 3-D boxes/zonotopes/flat clouds, 4-5-D boxes; all 8 / 48 signed permutations; JS on all pairs of {0..3}^k, k=2,3 (4 thorough)",
          "thorough": "plus size-5 sub-clouds, k = 4"}
TECHNIQUE = "exhaustive clouds x full symmetry group x scalings x supersets; closed-form geometric oracles; exhaustive integer grid for the divergence"
LEVEL_TEXT = "every cloud of the families is measured under every signed permutation, a rational rotation, translations, scalings and added points; volume is decided against a brute-force hull volume in the affine span, mean width against closed forms within a stated Monte-Carlo bound and exactly for a fixed seed; the divergence identities are decided on every pair of an integer grid"
LEVEL_NOTE = "mean width only to the Monte-Carlo resolution (see ASSUMPTIONS); clouds <= 32 points"
KE = ("exc", "msg", "api")
KV = ("api", "what", "family")


def _v(rec, clause, sig, *a, **k):
    rec.violation(clause, sig, *a, keys=(KE if "exc" in sig else KV), **k)


def units(tier, seed):
    out = [dict(kind="lat2", size=s, part=p, tier=tier, seed=seed) for s in ((3, 4) if tier == "quick" else (3, 4, 5)) for p in range(3)]
    out += [dict(kind="fixed", which=w, tier=tier, seed=seed) for w in range(25)]
    out += [dict(kind="gamut", tier=tier, seed=seed), dict(kind="estimator", tier=tier, seed=seed)]
    for k in ((2, 3) if tier == "quick" else (2, 3, 4)):
        out.append(dict(kind="js", k=k, tier=tier, seed=seed))
    return out


def span_volume(P):
    """volume of conv(P) within its affine span (own SVD reduction + brute-force hull volume)."""
    P = np.asarray(P, dtype=float)
    Q = P - P.mean(0)
    if np.max(np.abs(Q)) < 1e-14:
        return 0.0
    u, s, vt = np.linalg.svd(Q, full_matrices=False)
    k = int(np.sum(s > 1e-9 * s[0]))
    Y = Q @ vt[:k].T
    return O.hull_volume(Y)


def section_volume(W):
    """volume of conv(W) within its affine span for many (mostly non-extreme) points: candidates for the extreme points from qhull,
    brute-force volume of those, and an own containment test of ALL points (a disagreement -> None, never a verdict)"""
    from scipy.spatial import ConvexHull

    Q = W - W.mean(0)
    u, sv, vt = np.linalg.svd(Q, full_matrices=False)
    k = int(np.sum(sv > 1e-9 * sv[0]))
    Y = Q @ vt[:k].T
    if k == 1:
        return float(Y.max() - Y.min())
    try:
        vert = ConvexHull(Y).vertices
    except Exception:  # noqa
        return None
    V = Y[vert]
    if len(V) > 60:
        return None
    mg = O.hull_margin(V, Y)
    if mg is None or np.min(mg) < -1e-9 * (1 + np.max(np.abs(Y))):
        return None
    return O.hull_volume(V)


def perimeter(P):
    hr = O.hull_hrep(P)
    if hr is None:  # segment
        Q = P - P.mean(0)
        u, s, vt = np.linalg.svd(Q, full_matrices=False)
        y = Q @ vt[0]
        return 2 * (y.max() - y.min())
    N, off = hr
    per = 0.0
    for nu, o in zip(N, off):
        on = P[np.abs(P @ nu + o) <= 1e-9 * max(1.0, np.max(np.abs(P)))]
        t = on @ np.array([-nu[1], nu[0]])
        per += t.max() - t.min()
    return per


def signed_perms(d):
    for perm in itertools.permutations(range(d)):
        for signs in itertools.product((1.0, -1.0), repeat=d):
            M = np.zeros((d, d))
            for i, (p, s) in enumerate(zip(perm, signs)):
                M[i, p] = s
            yield M


def _check_cloud(rec, dreye, name, P, family, seed, motions=True):
    d = P.shape[1]
    sig = dict(family=family)
    case0 = dict(cloud=name)
    diam = float(max(np.linalg.norm(a - b) for a in P for b in P))
    # ---- volume
    try:
        rec.trans()
        vol = float(dreye.compute_volume(P))
    except Exception as e:  # noqa
        _v(rec, "a", dict(sig, api="compute_volume", **exc_sig(e)), "compute_volume raised %r" % (e,), case0, script="import numpy as np, dreye\nprint(dreye.compute_volume(np.array(%r)))\n" % (P.tolist(),))
        vol = None
    ref = span_volume(P)
    if vol is not None:
        rec.path()
        if ref > 0:
            rec.distinct((name, "vol"))
        ok = abs(vol - ref) <= 1e-9 * max(1.0, ref)
        rec.outcome("volume/%s" % ("ok" if ok else "bad"))
        if not ok:
            _v(rec, "a", dict(sig, api="compute_volume", what="value"), "volume %.10g differs from the hull volume in the affine span %.10g" % (vol, ref), case0, observed=vol, expected=ref,
               script="import numpy as np, dreye\nprint(dreye.compute_volume(np.array(%r)))\n" % (P.tolist(),))
    # ---- integer-typed clouds (lattice points as int arrays): the same numbers as for the same values as floats
    if np.all(P == np.round(P)):
        Pi = P.astype(np.int64)
        rec.path()
        rec.trans(10)
        bad_i = None
        try:
            if abs(float(dreye.compute_volume(Pi)) - float(dreye.compute_volume(P))) > 1e-12 * (1 + abs(ref)):
                bad_i = "compute_volume"
            for center_, vec_ in itertools.product((False, True), (False, True)):
                wi = float(dreye.compute_mean_width(Pi, n=200, seed=3, center=center_, vectorized=vec_))
                wf = float(dreye.compute_mean_width(P, n=200, seed=3, center=center_, vectorized=vec_))
                if abs(wi - wf) > 1e-12 * (1 + abs(wf)):
                    bad_i = "compute_mean_width(center=%r, vectorized=%r): %.6g vs %.6g" % (center_, vec_, wi, wf)
        except Exception as e:  # noqa
            bad_i = "raised %r" % (e,)
        rec.outcome("int-typed-cloud/%s" % ("same" if bad_i is None else "differs"))
        if bad_i:
            _v(rec, "c", dict(sig, api="compute_mean_width", what="int-typed cloud"), "an integer-typed cloud is measured differently from the same cloud as floats: %s" % bad_i, case0,
               script="import numpy as np, dreye\nP = np.array(%r)\nprint(dreye.compute_mean_width(P, n=200, seed=3, center=True), dreye.compute_mean_width(P.astype(float), n=200, seed=3, center=True))\n" % (Pi.tolist(),))
    # ---- mean width
    nmc = 20000
    hoeff = diam * math.sqrt(math.log(2 / 1e-12) / (2 * nmc))
    if d == 2:
        mw_ref = perimeter(P) / math.pi
    else:
        mw_ref = None
    widths = {}
    for sd in (0, 1, int(seed) + 2):
        for vec in (True, False) if sd == 0 else (True,):
            rec.trans()
            rec.path()
            try:
                w = float(dreye.compute_mean_width(P, n=nmc if vec else 2000, vectorized=vec, seed=sd))
            except Exception as e:  # noqa
                _v(rec, "c", dict(sig, api="compute_mean_width", **exc_sig(e)), "compute_mean_width raised %r" % (e,), case0)
                continue
            widths[(sd, vec)] = w
            if mw_ref is not None and vec:
                rec.distinct((name, "mw", sd))
                ok = abs(w - mw_ref) <= hoeff + 1e-12
                rec.outcome("mean-width/%s" % ("ok" if ok else "bad"))
                rec.stat_max("mean_width_rel_dev", abs(w - mw_ref) / max(diam, 1e-300))
                if not ok:
                    _v(rec, "c", dict(sig, api="compute_mean_width", what="closed-form"), "mean width %.6g differs from perimeter/pi = %.6g by more than the Monte-Carlo bound %.3g" % (w, mw_ref, hoeff), dict(case0, seed=sd), observed=w, expected=mw_ref)
    # reproducible per seed; loop variant == vectorised variant for the same n
    # (direction counts that are no multiple of any plausible block size included: 1, 7, 251, 300, 1375)
    try:
        for n_dir in (500, 1, 7, 251, 300, 1375):
            rec.trans(2)
            w1 = float(dreye.compute_mean_width(P, n=n_dir, vectorized=True, seed=3))
            w2 = float(dreye.compute_mean_width(P, n=n_dir, vectorized=False, seed=3))
            w3 = float(dreye.compute_mean_width(P, n=n_dir, vectorized=True, seed=3))
            if w1 != w3 or abs(w1 - w2) > 1e-12 * (1 + abs(w1)):
                _v(rec, "c", dict(sig, api="compute_mean_width", what="deterministic"), "mean width (n=%d directions) is not deterministic per seed / differs between the loop and the vectorised variant" % n_dir, dict(case0, n=n_dir), observed=[w1, w2, w3])
                break
    except Exception as e:  # noqa
        _v(rec, "c", dict(sig, api="compute_mean_width", **exc_sig(e)), "compute_mean_width raised %r" % (e,), case0)
        return
    if not motions:
        return
    # ---- motions, scalings, translation, supersets (fixed seed => exact relations)
    k = int(np.linalg.matrix_rank(P - P.mean(0), tol=1e-9))
    Ms = list(signed_perms(d)) if d <= 3 else [np.eye(d)[::-1].copy()]
    if d >= 2:
        R = np.eye(d)
        R[:2, :2] = np.array([[0.6, -0.8], [0.8, 0.6]])
        Ms.append(R)
    shift = 0.75 + 0.5 * np.arange(d)
    for mi, M in enumerate(Ms):
        Q = P @ M.T + shift
        rec.path()
        rec.trans(2)
        try:
            v2 = float(dreye.compute_volume(Q))
            mw2 = float(dreye.compute_mean_width(Q, n=nmc, vectorized=True, seed=0))
        except Exception as e:  # noqa
            _v(rec, "b", dict(sig, api="compute_volume", what="motion", **exc_sig(e)), "metric raised %r on a rigidly moved cloud" % (e,), dict(case0, motion=mi))
            continue
        rec.distinct((name, "motion", mi))
        if abs(v2 - ref) > 1e-9 * max(1.0, ref):
            _v(rec, "b", dict(sig, api="compute_volume", what="motion-invariance"), "volume changes under a rigid motion (%.10g vs %.10g)" % (v2, ref), dict(case0, motion=mi), observed=v2, expected=ref)
        tol = 2 * hoeff + 1e-12 if d > 1 else 1e-12
        if (0, True) in widths and abs(mw2 - widths[(0, True)]) > tol:
            _v(rec, "b", dict(sig, api="compute_mean_width", what="motion-invariance"), "mean width changes under a rigid motion by more than twice the Monte-Carlo bound", dict(case0, motion=mi), observed=mw2, expected=widths[(0, True)])
        rec.outcome("motion/ok")
    for t in (0.5, 2.0, 10.0):
        rec.path()
        rec.trans(4)
        try:
            vt_ = float(dreye.compute_volume(P * t))
            wt = float(dreye.compute_mean_width(P * t, n=2000, vectorized=True, seed=5))
            w0 = float(dreye.compute_mean_width(P, n=2000, vectorized=True, seed=5))
            ws = float(dreye.compute_mean_width(P + shift, n=2000, vectorized=True, seed=5))
        except Exception as e:  # noqa
            _v(rec, "b", dict(sig, api="compute_volume", what="scaling", **exc_sig(e)), "metric raised %r on a scaled cloud" % (e,), dict(case0, t=t))
            continue
        rec.distinct((name, "scale", t))
        if abs(vt_ - ref * t ** k) > 1e-9 * max(1.0, ref * t ** k):
            _v(rec, "b", dict(sig, api="compute_volume", what="homogeneity"), "volume is not homogeneous of degree %d (t=%s: %.10g vs %.10g)" % (k, t, vt_, ref * t ** k), dict(case0, t=t))
        if abs(wt - t * w0) > 1e-10 * (1 + t * w0):
            _v(rec, "d", dict(sig, api="compute_mean_width", what="homogeneity"), "mean width (fixed seed) is not homogeneous of degree 1", dict(case0, t=t), observed=wt, expected=t * w0)
        if abs(ws - w0) > 1e-10 * (1 + w0):
            _v(rec, "d", dict(sig, api="compute_mean_width", what="translation"), "mean width (fixed seed) changes under translation", dict(case0, t=t), observed=ws, expected=w0)
        rec.outcome("scaling/ok")
    # supersets: add each point of a small lattice
    extra = [np.array(p, dtype=float) for p in itertools.product((0.0, 1.0, 2.0), repeat=d)] if d <= 3 else [P.mean(0) + 3 * np.eye(d)[0], P.mean(0)]
    try:
        w0 = float(dreye.compute_mean_width(P, n=2000, vectorized=True, seed=5))
    except Exception:  # noqa
        return
    for ei, e in enumerate(extra[:27]):
        Q = np.vstack([P, e])
        rec.path()
        rec.trans(2)
        try:
            v2 = float(dreye.compute_volume(Q))
            w2 = float(dreye.compute_mean_width(Q, n=2000, vectorized=True, seed=5))
        except Exception as ex:  # noqa
            _v(rec, "b", dict(sig, api="compute_volume", what="superset", **exc_sig(ex)), "metric raised %r on a superset" % (ex,), dict(case0, extra=ei))
            continue
        k2 = int(np.linalg.matrix_rank(Q - Q.mean(0), tol=1e-9))
        rec.distinct((name, "superset", ei))
        if k2 == k and v2 < ref - 1e-9 * max(1.0, ref):
            _v(rec, "b", dict(sig, api="compute_volume", what="monotone"), "volume decreases when a point is added", dict(case0, extra=ei), observed=v2, expected=ref)
        if w2 < w0 - 1e-10 * (1 + w0):
            _v(rec, "d", dict(sig, api="compute_mean_width", what="monotone"), "mean width (fixed seed) decreases when a point is added", dict(case0, extra=ei), observed=w2, expected=w0)
        rec.outcome("superset/ok")


def run_unit(unit, rec):
    import dreye

    kind, tier, seed = unit["kind"], unit["tier"], unit["seed"]
    rec.state((kind, unit.get("size"), unit.get("k"), unit.get("part"), unit.get("which")))
    if kind == "lat2":
        base = [np.array(p, dtype=float) for p in itertools.product(range(3), repeat=2)]
        combos = list(itertools.combinations(range(9), unit["size"]))[unit["part"] :: 3]
        for S in combos:
            P = np.array([base[i] for i in S])
            _check_cloud(rec, dreye, ("lat2", S), P, "lattice-2d", seed, motions=(hash(S) % 4 == 0 or tier != "quick"))
        rec.sample(dict(kind=kind, clouds=len(combos), example=[base[i].tolist() for i in combos[0]]), cap=1)
    elif kind == "fixed":
        clouds = []
        clouds.append(("segment-1d", np.array([[0.5], [2.0], [1.0]])))
        clouds.append(("box-3d", np.array(list(itertools.product((0.0, 1.0), (0.0, 2.0), (0.0, 0.5))))))
        clouds.append(("box-4d", np.array(list(itertools.product((0.0, 1.0), (0.0, 2.0), (0.0, 0.5), (0.0, 1.5))))))
        clouds.append(("box-5d", np.array(list(itertools.product((0.0, 1.0), repeat=5))) * np.array([1, 2, 0.5, 1.5, 1])))
        clouds.append(("flat-triangle-in-3d", np.array([[0.0, 0, 0], [2, 0, 1], [0, 1, 1], [1, 0.5, 1]])))
        clouds.append(("flat-square-in-3d", np.array([[0.0, 0, 1], [1, 0, 1], [0, 1, 1], [1, 1, 1], [0.5, 0.5, 1]])))
        clouds.append(("segment-in-3d", np.array([[0.0, 0, 0], [1, 2, 2], [0.5, 1, 1]])))
        clouds.append(("flat-in-4d", np.array([[0.0, 0, 0, 0], [1, 0, 0, 1], [0, 2, 0, 0], [1, 2, 0, 1], [0, 0, 1, 0], [1, 0, 1, 1]])))
        clouds.append(("simplex-3d+interior", np.vstack([np.zeros(3), np.eye(3) * 2, [[0.3, 0.3, 0.3]]])))
        clouds.append(("single-point", np.array([[1.0, 2.0], [1.0, 2.0]])))
        # flat AND elongated (aspect ratios 16:1 .. 4000:1, rational rotation + shift); thin but full-dimensional as well
        R3 = np.array([[0.6, -0.8, 0.0], [0.8, 0.6, 0.0], [0.0, 0.0, 1.0]])
        for asp in (16.0, 128.0, 1024.0, 4096.0):
            Yp = np.array([[0.0, 0.0], [asp, 0.0], [asp, 0.5], [0.0, 0.5], [asp / 2, 0.25], [asp / 4, 0.125]])
            clouds.append(("flatthin-%d-in-3d" % asp, np.hstack([Yp, np.full((6, 1), 2.0)]) @ R3.T + 1.5))
            clouds.append(("flatthin-%d-in-4d" % asp, np.hstack([Yp, np.full((6, 1), 2.0), Yp[:, :1] * 0.5]) + 0.25))
            clouds.append(("thin-%d-2d" % asp, Yp @ R3[:2, :2].T + 0.5))
        # tall flat clouds (many points: scikit-learn's PCA takes its covariance path, singular values only accurate to sqrt(eps))
        gy, gx = np.meshgrid(np.arange(8.0), np.arange(11.0) * 2.5)
        G2 = np.stack([gx.ravel(), gy.ravel()], axis=1)
        F5 = np.array([[0.6, 0.8, 0, 0, 0], [0, 0, 0.6, 0, 0.8]])
        clouds.append(("flatmany-88-in-5d", G2 @ F5 + 0.75))
        clouds.append(("flatmany-88-in-3d", np.hstack([G2, np.full((88, 1), 1.0)]) @ R3.T))
        assert len(clouds) == 24
        for name, P in (clouds[unit["which"] : unit["which"] + 1]):
            _check_cloud(rec, dreye, name, P, name.split("-")[0], seed, motions=(("thin" not in name and "many" not in name) or name.endswith("16-in-3d") or name.endswith("1024-in-3d")))
        # zonotopes: mean width closed form sum ||g_k|| Gamma(d/2) / (sqrt(pi) Gamma((d+1)/2))
        for (m, n) in (((2, 3), (3, 3), (3, 4), (4, 5)) if unit["which"] == 24 else ()):
            G = AL.A_palette(m, n, seeded=False)[-1][1]
            r = 1.0 + np.arange(n) / 4.0
            V = AL.lattice(np.zeros(n), r, (0.0, 1.0)) @ G.T
            ref = float(np.sum(np.linalg.norm(G * r, axis=0)) * math.gamma(m / 2) / (math.sqrt(math.pi) * math.gamma((m + 1) / 2)))
            diam = float(max(np.linalg.norm(a - b) for a in V for b in V))
            hoeff = diam * math.sqrt(math.log(2 / 1e-12) / (2 * 20000))
            for sd in (0, 1, int(seed) + 2):
                rec.path()
                rec.trans()
                w = float(dreye.compute_mean_width(V, n=20000, vectorized=True, seed=sd))
                rec.distinct(("zono", m, n, sd))
                ok = abs(w - ref) <= hoeff
                rec.outcome("zonotope-mean-width/%s" % ("ok" if ok else "bad"))
                rec.stat_max("mean_width_rel_dev", abs(w - ref) / diam)
                if not ok:
                    _v(rec, "c", dict(family="zonotope", api="compute_mean_width", what="closed-form"), "mean width %.6g of a %dx%d zonotope differs from the closed form %.6g by more than %.3g" % (w, m, n, ref, hoeff), dict(zono=[m, n], seed=sd), observed=w, expected=ref)
            rec.trans()
            v = float(dreye.compute_volume(V))
            vr = span_volume(V)
            if abs(v - vr) > 1e-9 * max(1.0, vr):
                _v(rec, "a", dict(family="zonotope", api="compute_volume", what="value"), "zonotope volume %.10g vs %.10g" % (v, vr), dict(zono=[m, n]))
        rec.sample(dict(kind=kind, clouds=[c[0] for c in clouds]), cap=1)
    elif kind == "gamut":
        # compute_gamut: scale invariance, 1 relative to itself, <= 1 relative to a superset
        base = [np.array(p, dtype=float) for p in itertools.product((0.0, 1.0, 2.0), repeat=3) if any(p)]
        rng = np.random.default_rng(5 + seed)
        sets = [np.array(base)[idx] for idx in ([0, 3, 9, 12, 20], [1, 5, 8, 17, 22, 25], [2, 4, 6, 10, 13, 19, 24], list(range(0, 26, 3)))]
        sets.append(np.round(rng.uniform(0.1, 3, (7, 3)) * 8) / 8)
        sets.append(np.array([[1.0, 0.5], [0.25, 2.0], [1.0, 1.0], [2.0, 0.125]]))
        for si, X in enumerate(sets):
            for metric in ("width", "volume"):
                sig = dict(family="gamut-%s" % metric, api="compute_gamut")
                case = dict(set=si, metric=metric)
                rec.path()
                rec.trans(6)
                try:
                    g0 = float(dreye.compute_gamut(X, metric=metric, seed=1))
                    gs = [float(dreye.compute_gamut(X * t, metric=metric, seed=1)) for t in (0.5, 3.0, 1e-9, 1e-12, 1e6)]
                    grow = float(dreye.compute_gamut(X * (1 + 0.5 * np.arange(len(X)))[:, None], metric=metric, seed=1))
                    gself = float(dreye.compute_gamut(X, relative_to=X, metric=metric, seed=1))
                    sup = np.vstack([X, X.max(0) * np.eye(X.shape[1])[0] + 0.01, np.eye(X.shape[1])[-1]])
                    gsup = float(dreye.compute_gamut(X, relative_to=sup, metric=metric, seed=1))
                except Exception as e:  # noqa
                    _v(rec, "e", dict(sig, **exc_sig(e)), "compute_gamut raised %r" % (e,), case)
                    continue
                rec.distinct(("gamut", si, metric))
                bad = None
                if any(abs(g - g0) > 1e-9 * (1 + abs(g0)) for g in gs) or abs(grow - g0) > 1e-9 * (1 + abs(g0)):
                    bad = "gamut changes with the intensity scale of its input"
                elif abs(gself - 1.0) > 1e-9:
                    bad = "gamut relative to itself is %.10g, not 1" % gself
                elif gsup > 1.0 + 1e-9:
                    bad = "gamut relative to a superset is %.10g > 1" % gsup
                elif not (g0 > 0):
                    bad = "gamut of a proper cloud is not positive"
                rec.outcome("gamut/%s" % ("ok" if bad is None else "bad"))
                if bad:
                    _v(rec, "e", dict(sig, what=bad[:30]), bad, case, observed=dict(g0=g0, scaled=gs, rows_scaled=grow, self=gself, superset=gsup))
        # gamut at a fixed total capture = volume of the hull's section {sum = c} in the unit-edge simplex chart
        box4 = np.array(list(itertools.product((0.0, 1.0), (0.0, 2.0), (0.0, 0.5), (0.0, 1.5)))) + 0.25
        box5 = np.array(list(itertools.product((0.0, 1.0), repeat=5))) * np.array([1, 2, 0.5, 1.5, 1]) + 0.125
        rnd4 = np.round(np.random.default_rng(11 + seed).uniform(0.1, 3, (9, 4)) * 8) / 8
        for cname, X in (("set3d-0", sets[0]), ("set3d-3", sets[3]), ("box-4d", box4), ("box-5d", box5), ("random-4d", rnd4)):
            l1 = X.sum(1)
            lo_, hi_ = float(np.sort(l1)[1]), float(l1.max())
            for frac in (0.3, 0.6):
                c = lo_ + frac * (hi_ - lo_)
                sig = dict(family="gamut-section", api="compute_gamut")
                case = dict(cloud=cname, at_l1=c)
                rec.path()
                rec.trans()
                try:
                    g = float(dreye.compute_gamut(X, at_l1=c, metric="volume"))
                except Exception as e:  # noqa
                    _v(rec, "e", dict(sig, **exc_sig(e)), "compute_gamut(at_l1=...) raised %r" % (e,), case)
                    continue
                Z = []
                for a in range(len(X)):
                    for b in range(len(X)):
                        if l1[a] <= c <= l1[b] and l1[a] != l1[b]:
                            t = (c - l1[a]) / (l1[b] - l1[a])
                            Z.append(X[a] + t * (X[b] - X[a]))
                ref = section_volume(np.array(Z) / c / math.sqrt(2.0))
                if ref is None:
                    rec.count("section-oracle-undecided")
                    continue
                rec.distinct(("section", cname, frac))
                ok = abs(g - ref) <= 1e-9 * (1 + ref)
                rec.outcome("gamut-section/%s" % ("ok" if ok else "bad"))
                if not ok:
                    _v(rec, "e", dict(sig, what="section-volume"), "gamut at total capture %.4g is %.10g, the section of the hull has volume %.10g" % (c, g, ref), case, observed=g, expected=ref,
                       script="import numpy as np, dreye\nX = np.array(%r)\nprint(dreye.compute_gamut(X, at_l1=%r, metric='volume'))\n" % (X.tolist(), c))
        rec.sample(dict(kind=kind, sets=len(sets)), cap=1)
    elif kind == "estimator":
        # fraction of the perfect system, absolute capture, in (0, 1]
        for (m, n) in ((2, 2), (3, 3), (3, 4), (4, 4), (3, 5)):
            d = 9
            x = np.arange(d)
            filters = np.array([np.round(8 * np.exp(-((x - (i + 0.5) * d / m) ** 2) / 6.0)) / 8 + 0.125 for i in range(m)])
            sources = np.array([np.round(8 * np.exp(-((x - (k + 0.5) * d / n) ** 2) / 3.0)) / 8 for k in range(n)])
            for ub in (1.0, 1.0 + np.arange(n) / 2.0):
                est = dreye.ReceptorEstimator(filters, domain=1.0)
                est.register_system(sources, ub=ub)
                rec.trans(2)
                # absolute gamut at a fixed total capture = volume of the slice of the capture zonotope (origin included: lb = 0)
                if m >= 3:
                    Aabs = np.einsum("id,kd->ik", filters, sources) - 0.5 * (filters[:, :1] * sources[None, :, 0] + filters[:, -1:] * sources[None, :, -1])
                    ubv = np.broadcast_to(np.asarray(ub, dtype=float), (n,))
                    Vz = AL.lattice(np.zeros(n), ubv, (0.0, 1.0)) @ Aabs.T
                    sz = Vz.sum(1)
                    smin_nz = float(np.min(sz[sz > 1e-12]))
                    for c_ in (0.5 * smin_nz, 0.35 * float(sz.max())):
                        rec.path()
                        rec.trans()
                        case = dict(shape=[m, n], metric="volume", at_l1=c_, relative=False, fraction=False)
                        try:
                            g = float(est.compute_gamut(fraction=False, metric="volume", at_l1=c_, relative=False))
                        except Exception as e:  # noqa
                            _v(rec, "e", dict(family="estimator-volume", api="ReceptorEstimator.compute_gamut", **exc_sig(e)), "compute_gamut(at_l1=%.4g) raised %r" % (c_, e), case)
                            continue
                        Z = [v for v, s_ in zip(Vz, sz) if abs(s_ - c_) <= 1e-12]
                        for a_ in range(len(Vz)):
                            for b_ in range(len(Vz)):
                                if sz[a_] < c_ < sz[b_]:
                                    Z.append(Vz[a_] + (c_ - sz[a_]) / (sz[b_] - sz[a_]) * (Vz[b_] - Vz[a_]))
                        ref = section_volume(np.array(Z) / c_ / math.sqrt(2.0))
                        if ref is None:
                            rec.count("section-oracle-undecided")
                            continue
                        rec.distinct(("est-section", m, n, np.ndim(ub), c_))
                        okv = abs(g - ref) <= 1e-9 * (1 + ref)
                        rec.outcome("estimator-section/%s" % ("ok" if okv else "bad"))
                        if not okv:
                            _v(rec, "e", dict(family="estimator-volume", api="ReceptorEstimator.compute_gamut", what="section-volume"), "absolute gamut at total capture %.4g is %.10g, the slice of the capture zonotope has volume %.10g" % (c_, g, ref), case, observed=g, expected=ref)
                for metric, at_l1, relative in itertools.product(("width", "volume"), (None, 2.0), (False, True)):
                    if m == 2 and metric == "volume":
                        pass
                    rec.path()
                    rec.trans()
                    sig = dict(family="estimator-%s" % metric, api="ReceptorEstimator.compute_gamut")
                    case = dict(shape=[m, n], metric=metric, at_l1=at_l1, relative=relative)
                    try:
                        f = float(est.compute_gamut(fraction=True, metric=metric, at_l1=at_l1, seed=2, relative=relative))
                    except Exception as e:  # noqa
                        _v(rec, "e", dict(sig, **exc_sig(e)), "compute_gamut raised %r" % (e,), case)
                        continue
                    rec.distinct(("est", m, n, np.ndim(ub), metric, at_l1, relative))
                    if not relative and at_l1 is None:
                        # absolute capture does not depend on the adaptational state or the baseline
                        rec.trans(2)
                        est2 = dreye.ReceptorEstimator(filters, domain=1.0, K=0.5 + 0.375 * np.arange(m), baseline=0.25 + 0.125 * np.arange(m))
                        est2.register_system(sources, ub=ub)
                        f2 = float(est2.compute_gamut(fraction=True, metric=metric, seed=2, relative=False))
                        if abs(f2 - f) > 1e-9 * (1 + abs(f)):
                            _v(rec, "e", dict(sig, what="absolute-fraction-depends-on-adaptation"), "fractional gamut in absolute capture changes with K / baseline (%.6g vs %.6g)" % (f2, f), case, observed=f2, expected=f)
                    ok = (0 < f <= 1 + 1e-9) or (at_l1 is not None and f == 0)
                    rec.outcome("fraction/%s" % ("ok" if ok else "bad"))
                    if not ok:
                        _v(rec, "e", dict(sig, what="fraction-range"), "fractional gamut %.6g is not in (0, 1]" % f, case, observed=f)
        rec.sample(dict(kind=kind), cap=1)
    else:
        k = unit["k"]
        vecs = [np.array(v, dtype=float) for v in itertools.product(range(4), repeat=k) if any(v)]
        if k == 4 and tier == "quick":
            vecs = vecs[::3]
        for P, Q in itertools.product(vecs, vecs):
            rec.path()
            rec.trans(2)
            sig = dict(family="js", api="compute_jensen_shannon_divergence")
            case = dict(P=P.tolist(), Q=Q.tolist())
            try:
                a = float(dreye.compute_jensen_shannon_divergence(P, Q))
                b = float(dreye.compute_jensen_shannon_divergence(Q * 3.0, P * 0.5))
                s = float(dreye.compute_jensen_shannon_similarity(P, Q))
            except Exception as e:  # noqa
                _v(rec, "f", dict(sig, **exc_sig(e)), "divergence raised %r" % (e,), case)
                continue
            prop = np.linalg.matrix_rank(np.vstack([P, Q])) == 1
            if not np.array_equal(P, Q):
                rec.distinct((k, P.tobytes(), Q.tobytes()))
            # independent value
            p, q = P / P.sum(), Q / Q.sum()
            mm = 0.5 * (p + q)
            ref = 0.5 * sum(pi * math.log2(pi / mi) for pi, mi in zip(p, mm) if pi > 0) + 0.5 * sum(qi * math.log2(qi / mi) for qi, mi in zip(q, mm) if qi > 0)
            bad = None
            if not np.isfinite(a):
                bad = "non-finite divergence"
            elif abs(a - b) > 1e-12:
                bad = "divergence is not symmetric / not invariant to scaling its arguments (%.15g vs %.15g)" % (a, b)
            elif abs(a - ref) > 1e-12:
                bad = "divergence %.15g differs from its definition %.15g" % (a, ref)
            elif prop and abs(a) > 1e-12:
                bad = "divergence of proportional inputs is %.3g, not 0" % a
            elif (not prop) and a < 1e-9:
                bad = "divergence of non-proportional inputs is 0"
            elif a > 1 + 1e-12:
                bad = "divergence exceeds 1 bit"
            elif abs(s - (1 - a)) > 1e-12:
                bad = "similarity is not 1 - divergence"
            rec.outcome("js-%s/%s" % ("proportional" if prop else "different", "ok" if bad is None else "bad"))
            if bad:
                _v(rec, "f", dict(sig, what=bad[:30]), bad, case, observed=dict(div=a, swapped_scaled=b, sim=s), expected=ref)
        rec.sample(dict(kind="js", k=k, vectors=len(vecs), example=[vecs[1].tolist(), vecs[5].tolist()]), cap=1)
