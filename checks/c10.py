"""
C10 - the adaptive fit scales intensity and chroma uniformly and stays inside the gamut.

Systems with finite bounds (2-4 x 2-6) x target sets (1, 2, 5 samples; all inside / one outside / all far outside) x
neutral point (default | given) x objective x scale weights x deltas; called exactly as a user would (default
solver) and with an installed solver passed through.
Oracle O-SCALE: each facet inequality of the gamut (exact zonotope H-representation) becomes a half-plane in the
(scale0, scale1) plane; the exact feasible set is their intersection over facets and samples.
"""

import itertools

import numpy as np

from mc import alphabets as AL
from mc import build as B
from mc import oracles as O
from mc.kernel import exc_sig

PROPERTY = "C10"
RULE = "unit = one system; paths = fit_adaptive calls per (target set, neutral point, objective, weights, deltas, solver); non-trivial = sets with at least one out-of-gamut target (scales != 1 needed); distinct by all of these"
ASSUMPTIONS = ["scales are required to be non-negative (an optimal pair may have a zero component; strict positivity is not implied by the optimisation)", "optimality asserted one-sidedly against a feasible point of the EXACT (delta = 0) scale polygon", "tolerances: constraints delta + 2e-3 x scale; scales 5e-3"]
BOUNDS = {"quick": "shapes 2x2 2x3 3x3 3x4 4x4 x 2 matrices x (bounds, K, baseline) <= 1 deviation; 4 target sets; 2 neutral points; 2 objectives; 2 weightings; delta menu on one set", "thorough": "plus 3x5 4x5 4x6, 50-sample sets, 2 deviations"}
CAP_S = {"quick": 600, "thorough": 7200}
TECHNIQUE = "all systems x target sets x options of the menu; constraints checked directly on the returned values, optimal scales against the exact feasible polygon in scale space built from the zonotope facets"
LEVEL_TEXT = "every configuration of the menu is fitted with fit_adaptive; bounds, positivity of the scales, both per-sample constraints, (1,1) for in-gamut sets, and optimality of the scales against the exact feasible polygon derived from the gamut's H-representation are decided (one-sided)"
LEVEL_NOTE = "small scope; SLSQP / HiGHS inside the oracle; default solver accuracy limits the tolerances"
KE = ("exc", "msg", "solver", "objective")
KV = ("objective", "what", "solver", "set", "neutral", "weights")


def _v(rec, clause, sig, *a, **k):
    rec.violation(clause, sig, *a, keys=(KE if "exc" in sig else KV), **k)


def units(tier, seed):
    shapes = [(2, 2), (2, 3), (3, 3), (3, 4), (4, 4)] + ([] if tier == "quick" else [(3, 5), (4, 5), (4, 6)])
    out = []
    for names, A, (lb, ub), K, bl in AL.systems(shapes, seed=seed, order=(1 if tier == "quick" else 2), bounds=["ub-finite", "lb-mixed", "scalar"], Ks=["default", "scalar", "vector", "matrix-pos"], seeded=(tier != "quick")):
        out.append(dict(names=names, spec=B.spec_of(A, lb, ub, K, bl), tier=tier))
        if names["A"] == "asc" and names["K"] == "default" and names["baseline"] == "default" and names["bounds"] in ("ub-finite", "lb-mixed"):
            # the same system with strongly non-uniform receptor weights (the requested deltas are absolute tolerances, whatever the weights)
            m_ = A.shape[0]
            out.append(dict(names=dict(names, receptor_weights="vector"), spec=B.spec_of(A, lb, ub, K, bl, w=np.array([1.0, 0.1, 0.05, 0.5, 0.02])[:m_]), tier=tier))
            if names["bounds"] == "ub-finite":
                # finite NEGATIVE lower bounds are legal (intensities relative to a background): targets that need negative intensities
                n_ = A.shape[1]
                out.append(dict(names=dict(names, bounds="negative-lb"), spec=B.spec_of(A, -0.25 - 0.125 * (np.arange(n_) % 3), np.asarray(ub, dtype=float) * np.ones(n_), K, 0.75), tier=tier))
    # many samples at high intensities on an under-determined system (the scales are decided by the documented objective alone,
    # not by any property of the intensities): accurate solver, 40 in-gamut targets, upper bounds of 10
    A35 = AL.A_palette(3, 5, seeded=False)[0][1]
    out.append(dict(names=dict(shape="3x5", A="asc", bounds="ub-10", K="default", baseline="default"), spec=B.spec_of(A35, np.zeros(5), np.full(5, 10.0), None, None), tier=tier, many=True))
    return out


def scale_halfplanes(Abar, c0, lo, hi, NP, BR):
    """rows (a0, a1, b): a0*s0 + a1*s1 <= b  for p_i(s) = s0*NP_i + s1*BR_i inside the gamut."""
    r = (hi - lo) / 2
    c = c0 + Abar @ ((hi + lo) / 2)
    N, h = O.zono_hrep(Abar, r)
    rows = []
    for npi, bri in zip(NP, BR):
        a0, a1 = N @ npi, N @ bri
        off = N @ c
        for sgn in (1.0, -1.0):
            rows.append(np.stack([sgn * a0, sgn * a1, h + sgn * off], axis=1))
    return np.vstack(rows)


def scale_opt(H, w, objective):
    """a feasible point of the exact polygon that is (near-)optimal for the objective; None if the polygon is empty."""
    from scipy.optimize import linprog, minimize

    A_ub, b_ub = H[:, :2], H[:, 2]
    if objective == "max":
        r = linprog(-w, A_ub=A_ub, b_ub=b_ub, bounds=[(1e-9, None)] * 2, method="highs")
        if r.status != 0:
            return None
        return r.x
    r0 = linprog(np.zeros(2), A_ub=A_ub, b_ub=b_ub, bounds=[(1e-9, None)] * 2, method="highs")
    if r0.status != 0:
        return None
    if np.all(A_ub @ np.ones(2) <= b_ub + 1e-12):
        return np.ones(2)
    f = lambda s: float(np.sum((w * (s - 1)) ** 2))  # noqa
    g = lambda s: 2 * w * w * (s - 1)  # noqa
    cons = [dict(type="ineq", fun=lambda s: b_ub - A_ub @ s, jac=lambda s: -A_ub)]
    best = None
    for s0 in (r0.x, np.array([0.5, 0.5]), np.array([1.0, 0.1]), np.array([0.1, 1.0])):
        r = minimize(f, s0, jac=g, method="SLSQP", bounds=[(1e-9, None)] * 2, constraints=cons, options=dict(ftol=1e-14, maxiter=300))
        s = r.x
        viol = np.max(A_ub @ s - b_ub)
        if viol > 1e-9:
            # pull the candidate inside: shrink towards the LP-feasible point
            for lam in np.linspace(0, 1, 101):
                s2 = (1 - lam) * s + lam * r0.x
                if np.max(A_ub @ s2 - b_ub) <= 1e-12:
                    s = s2
                    break
            else:
                continue
        if best is None or f(s) < f(best):
            best = s
    return best if best is not None else r0.x


def run_unit(unit, rec):
    spec, names, tier = unit["spec"], unit["names"], unit["tier"]
    est = B.make_est(spec, rec=rec)
    rec.state(B.state_key(est))
    Abar, c0, lo, hi = B.model_of(spec, True)
    m, n = Abar.shape
    rng_ = hi - lo
    ext = float(np.max(np.abs(Abar) @ rng_))
    if O.zono_hrep(Abar, rng_ / 2) is None:
        return
    base = dict(names)
    Xi = AL.lattice(lo, hi, (0.1, 0.7) if np.any(lo < 0) else (0.3, 0.7))  # with negative lower bounds: targets that need negative intensities
    inside = c0 + Xi[:: max(1, len(Xi) // 5)][:5] @ Abar.T
    fp = O.zono_facet_points(Abar, c0, lo, hi)
    out1 = fp[0][0] + 0.2 * ext * fp[0][1]
    far = np.array([c0 + Abar @ hi + (2.0 + 0.5 * k) * ext * (np.arange(m) == (k % m)) for k in range(2)])
    sets = {"single-inside": inside[:1], "five-inside": inside, "one-outside": np.vstack([inside[:1], out1]), "all-far-outside": far}
    if tier != "quick":
        rep = np.vstack([inside] * 9 + [inside[:4], out1[None]])
        sets["fifty-one-outside"] = rep
    if unit.get("many"):
        Xm = np.array([lo + (hi - lo) * (0.35 + 0.3 * (((np.arange(n) * 3 + k_ * 5) % 7) / 7.0)) for k_ in range(40)])
        sets = {"forty-inside": c0 + Xm @ Abar.T}
    neutral_given = c0 + Abar @ ((lo + hi) / 2)
    for sname, T in sets.items():
        if np.any(T.sum(1) <= 0):
            continue
        mg = O.zono_margin(T, Abar, c0, lo, hi)
        combos = list(itertools.product(("default", "given"), ("unity", "max"), ("one", "weighted"), ("default-solver", "clarabel")))
        for nname, objective, wname, solver in combos:
            deltas = [(1e-4, 1e-4)]
            if sname == "one-outside" and nname == "default" and wname == "one" and solver == "default-solver":
                deltas = [(1e-4, 1e-4), (1e-6, 1e-6), (1e-3, 1e-3)]
            if solver == "clarabel" and (wname == "weighted" or nname == "given"):
                continue
            if unit.get("many") and (solver != "clarabel" or objective != "unity"):
                continue
            if solver == "clarabel" and sname in ("one-outside", "five-inside"):
                # each constraint has its OWN tolerance: unequal deltas, decided with the accurate solver
                deltas = [(1e-4, 1e-4), (1e-3, 1e-6), (1e-6, 1e-3)]
            for d1, dr in deltas:
                neutral = None if nname == "default" else neutral_given
                w = np.ones(2) if wname == "one" else np.array([1.0, 3.0])
                kw = dict(adaptive_objective=objective, delta_norm1=d1, delta_radius=dr)
                if neutral is not None:
                    kw["neutral_point"] = neutral
                if wname != "one":
                    kw["scale_w"] = w
                if solver == "clarabel":
                    kw["solver"] = "CLARABEL"
                sig = dict(base, set=sname, neutral=nname, objective=objective, weights=wname, solver=solver)
                case = dict(set=sname, neutral=nname, objective=objective, weights=wname, solver=solver, deltas=[d1, dr])
                scr = B.script_est(spec) + "T = np.array(%r)\nprint(est.fit_adaptive(T%s))\n" % (T.tolist(), "".join(", %s=%s" % (k, ("np.array(%r)" % (v.tolist(),)) if isinstance(v, np.ndarray) else repr(v)) for k, v in kw.items()))
                npv = np.ones(m) if neutral is None else neutral
                Bsum = T.sum(1)
                NP = npv / npv.sum() * Bsum[:, None]
                BR = T - NP
                H = scale_halfplanes(Abar, c0, lo, hi, NP, BR)
                # regime of the statement: a pair of clearly positive scales must exist at all, and 'max' must be bounded
                from scipy.optimize import linprog

                rpos = linprog(np.array([0.0, 0.0, -1.0]), A_ub=np.vstack([np.hstack([H[:, :2], np.zeros((len(H), 1))]), [[-1, 0, 1], [0, -1, 1]]]),
                               b_ub=np.concatenate([H[:, 2], [0, 0]]), bounds=[(0, None), (0, None), (None, 1.0)], method="highs")
                positive_pair = rpos.status == 0 and rpos.x[2] >= 0.05
                rmax = linprog(-w, A_ub=H[:, :2], b_ub=H[:, 2], bounds=[(0, None)] * 2, method="highs")
                if not positive_pair or (objective == "max" and rmax.status != 0):
                    rec.outcome("%s/outside-the-statement(no positive pair or unbounded)" % objective)
                    rec.trans()
                    try:
                        est.fit_adaptive(T, **kw)
                    except Exception:  # noqa - any answer is acceptable here
                        pass
                    continue
                rec.path()
                rec.trans()
                T_before = T.copy()
                try:
                    X, sc, Bp = est.fit_adaptive(T, **kw)
                except Exception as e:  # noqa
                    _v(rec, "a", dict(sig, **exc_sig(e)), "fit_adaptive raised %r" % (e,), case, script=scr)
                    rec.outcome("exception")
                    T[...] = T_before
                    continue
                if not np.array_equal(T, T_before):
                    # the same target array is fitted again below with the next objective / weights / solver: a fit that rewrites
                    # its caller's targets makes every later fit of that array answer for other targets
                    _v(rec, "a", dict(sig, what="targets overwritten"), "fit_adaptive modified the caller's target array in place (a second fit of the same array answers for different targets)",
                       case, observed=T.copy(), expected=T_before, script=scr)
                    rec.outcome("targets-overwritten")
                    T[...] = T_before
                    continue
                if np.any(mg < 0):
                    rec.distinct((spec, sname, nname, objective, wname, solver, d1))
                X, sc, Bp = np.asarray(X, dtype=float), np.asarray(sc, dtype=float), np.asarray(Bp, dtype=float)
                pred = X @ Abar.T + c0
                scale_c = max(1.0, float(np.max(np.abs(T))))
                bad = None
                if X.shape != (len(T), n) or sc.shape != (2,):
                    bad = ("a", "malformed result")
                elif np.any(X < lo - 0.01 * rng_ - 1e-9) or np.any(X > hi + 0.01 * rng_ + 1e-9):
                    bad = ("b", "returned intensities violate the bounds")
                elif np.any(sc < -1e-9):
                    # (the optimum of the documented objective may lie ON the boundary scale = 0, e.g. 'max' trading all
                    #  chroma for intensity: "positive" is decided as non-negative, which is what the formulation guarantees)
                    bad = ("c", "a scale is negative")
                elif np.max(np.abs(Bp - pred)) > 1e-9 * (1 + ext):
                    bad = ("b", "returned prediction is not the model's capture of the returned intensities")
                elif np.max(np.abs(pred.sum(1) - sc[0] * Bsum)) > d1 + (2e-6 if solver == "clarabel" else 2e-3) * scale_c:
                    bad = ("d", "fitted total capture is not the target's total times the first scale")
                elif np.max(np.abs((pred - sc[0] * NP) - sc[1] * BR)) > dr + (2e-6 if solver == "clarabel" else 2e-3) * scale_c:
                    bad = ("e", "fitted offset from the neutral direction is not the target's offset times the second scale")
                else:
                    if objective == "unity" and np.all(mg >= 1e-2 * ext):
                        if np.max(np.abs(sc - 1.0)) > (1e-3 if solver == "clarabel" else 5e-3):
                            bad = ("f", "all targets are in gamut but the scales are %s, not (1, 1)" % np.round(sc, 5).tolist())
                    else:
                        so = scale_opt(H, w, objective)
                        if so is None:
                            rec.outcome("%s/exact-polygon-empty" % objective)
                        elif objective == "unity":
                            dl, do = float(np.sum((w * (sc - 1)) ** 2)), float(np.sum((w * (so - 1)) ** 2))
                            rec.stat_max("unity_excess", dl - do)
                            if dl > do + 5e-3 * (1 + do):
                                bad = ("g", "scales %s are farther from (1,1) (%.5g) than the feasible pair %s (%.5g)" % (np.round(sc, 5).tolist(), dl, np.round(so, 5).tolist(), do))
                        else:
                            vl, vo = float(w @ sc), float(w @ so)
                            rec.stat_max("max_deficit", vo - vl)
                            if vl < vo - 5e-3 * (1 + abs(vo)):
                                bad = ("h", "weighted sum of the scales %.5g is smaller than that of the feasible pair %s (%.5g)" % (vl, np.round(so, 5).tolist(), vo))
                rec.outcome("%s/%s" % (objective, "ok" if bad is None else "bad"))
                if bad:
                    _v(rec, bad[0], dict(sig, what=bad[1][:40]), bad[1], case, observed=dict(scales=sc, X=X[:2]), expected=dict(targets=T[:3]), script=scr)
    rec.sample(dict(system=names, sets=list(sets)), cap=1)
