"""
C04 - the default fit is the global bounded weighted least-squares optimum.

Systems (1-5 x 1-8; under-, exactly-, over-determined) x bounds x K x baseline x weights x solver setting
(deviation-bounded) x a geometric target lattice (interior, vertices, near facets, far outside, below baseline,
zero).  Oracle: global optimum of min ||w*(Abar x + c0 - b)|| over the box by active-set enumeration (3^n patterns),
cross-checked by scipy BVLS plus a convexity certificate.
"""

import numpy as np

from mc import alphabets as AL
from mc import build as B
from mc import oracles as O
from mc.kernel import exc_sig

PROPERTY = "C04"
RULE = (
    "unit = (system, weights, solver setting); every target of the lattice is one path (fit call); non-trivial = "
    "targets inside the well-scaled regime with a decided oracle class (in gamut / outside), distinct by (unit, target); "
    "paths outside the regime are executed (crash + exact clauses asserted) and counted as stress-explored"
)
ASSUMPTIONS = [
    "tolerances from the property text: 2e-2 capture units / 1 % of the bound range (default solver), 2e-3 / 1e-6 (high accuracy)",
    "high accuracy = solver='CLARABEL' passed through **opt_kwargs",
    "weights multiply the residual (objective sum (w_i r_i)^2), as documented by the implementation",
]
BOUNDS = {
    "quick": "12 shapes up to 4x6 x 2-3 matrices; (bounds, K, baseline, weights, solver) with <= 2 deviations from default; ~35 targets per system",
    "thorough": "all shapes 1..5 x 1..7 (+ 8 sources for <= 3 receptors), <= 3 deviations",
}
CAP_S = {"quick": 900, "thorough": 7200}
TECHNIQUE = "all systems x options (deviation-bounded) x geometric target lattice; objective value compared with the global optimum from exhaustive active-set enumeration"
LEVEL_TEXT = ("every enumerated (system, weights, solver setting, target) is fitted through ReceptorEstimator.fit / lsq_linear; bounds, exactness of the "
              "returned prediction and global optimality of the weighted residual are decided against an optimum obtained by enumerating all active sets")
LEVEL_NOTE = "small scope; optimality asserted to the property's stated solver tolerances inside the well-scaled regime only; numpy lstsq in the oracle, cross-checked by scipy BVLS + convexity certificate"

SOLVERS = [("default", {}), ("clarabel", dict(solver="CLARABEL")), ("osqp-tight", dict(solver="OSQP", eps_abs=1e-9, eps_rel=1e-9, max_iter=200000, polish=True))]
KE = ("exc", "msg", "api")
KV = ("solver", "weights", "geometry", "target", "api", "bounds_kind", "K", "baseline", "status")


def _v(rec, clause, sig, *a, **k):
    rec.violation(clause, sig, *a, keys=(KE if "exc" in sig else KV), **k)


def units(tier, seed):
    shapes = AL.QUICK_SHAPES if tier == "quick" else [(m, n) for (m, n) in AL.THOROUGH_SHAPES if n <= 7 or m <= 3]
    order = 2 if tier == "quick" else 3
    out = []
    for (m, n) in shapes:
        bm, km, sm, wm = AL.bounds_menu(n), AL.K_menu(m), AL.baseline_menu(m), AL.w_menu(m)
        for aname, A in AL.A_palette(m, n, seed=seed):
            menus = [bm, km, sm, wm, SOLVERS]
            for (ib, ik, isb, iw, isol) in AL.deviations(menus, order if aname != "seeded" else min(order, 1) + (1 if tier != "quick" else 0)):
                names = dict(shape="%dx%d" % (m, n), A=aname, bounds=bm[ib][0], K=km[ik][0], baseline=sm[isb][0], weights=wm[iw][0], solver=SOLVERS[isol][0])
                out.append(dict(names=names, spec=B.spec_of(A, bm[ib][1], bm[ib][2], km[ik][1], sm[isb][1], wm[iw][1]), solver=isol, tier=tier))
    return out


def _drain_status(rec):
    """solver statuses from the hook (coverage evidence and localisation only; never a verdict)"""
    try:
        from dreye.api import _verif
    except Exception:  # noqa - hooks unavailable
        return []
    st = [e.get("status") for e in _verif.drain() if e.get("kind") == "solve"]
    for x in st:
        rec.count("solver-status:%s" % x)
    return st


def targets(Abar, c0, lo, hi):
    """(kind, target) list; built from the geometry."""
    m, n = Abar.shape
    T = []
    bounded = bool(np.all(np.isfinite(hi)))
    hi_ = np.where(np.isfinite(hi), hi, lo + 2.0)
    centre = c0 + Abar @ ((lo + hi_) / 2)
    ext = float(np.max(np.abs(Abar) @ (hi_ - lo)))
    # interior lattice (in gamut)
    levels = (0.25, 0.5, 0.75) if n <= 2 else (0.25, 0.75)
    X = AL.lattice(lo, hi_, levels)
    if len(X) > 8:
        X = X[:: len(X) // 8][:8]
    for x in X:
        T.append(("interior", c0 + Abar @ x))
    # vertices
    Vx = AL.lattice(lo, hi_, (0.0, 1.0))
    if len(Vx) > 6:
        Vx = Vx[:: len(Vx) // 6][:6]
    for x in Vx:
        T.append(("vertex" if bounded else "interior", c0 + Abar @ x))
    if bounded:
        fp = O.zono_facet_points(Abar, c0, lo, hi)
        for cen, nu in fp[:6]:
            T.append(("facet-in", cen - 0.05 * ext * nu))
            T.append(("facet-out", cen + 0.05 * ext * nu))
            T.append(("facet-out", cen + 0.5 * ext * nu))
    for x in Vx[:3]:
        v = c0 + Abar @ x
        T.append(("far", centre + 3.0 * (v - centre) + 0.01 * ext))
    e0 = np.zeros(m)
    e0[0] = 1.0
    T.append(("skew", centre + 0.7 * ext * e0))
    T.append(("skew", centre - 0.7 * ext * e0 + 0.1 * ext))
    T.append(("below-baseline", c0 - 0.5 - 0.25 * np.arange(m)))
    T.append(("below-baseline", c0 + Abar @ lo - 0.25))
    T.append(("zero", np.zeros(m)))
    return T, ext


def _script(spec, Bt, okw, registered_W=None):
    s = B.script_est(spec) + "B = np.array(%r)\n" % (np.asarray(Bt).tolist(),)
    s += "X, Bp = est.fit(B%s)\nprint(X, Bp)\n" % ("".join(", %s=%r" % kv for kv in okw.items()))
    return s


def run_unit(unit, rec):
    spec, names, tier = unit["spec"], unit["names"], unit["tier"]
    sname, okw = SOLVERS[unit["solver"]]
    hi_acc = sname != "default"
    cap_tol = 2e-3 if hi_acc else 2e-2
    try:
        est = B.make_est(spec, rec=rec)
    except Exception as e:  # noqa
        _v(rec, "a", dict(names, api="build", **exc_sig(e)), "building the estimator raised %r" % (e,), dict(step="build"), script=B.script_est(spec))
        return
    rec.state(B.state_key(est))
    Abar, c0, lo, hi = B.model_of(spec, True)
    m, n = Abar.shape
    w = np.ones(m) if spec["w"] is None else np.asarray(spec["w"], dtype=float)
    T, ext = targets(Abar, c0, lo, hi)
    P = np.array([t[1] for t in T])
    bounded = bool(np.all(np.isfinite(hi)))
    brange = (hi - lo) if bounded else np.ones(n)
    r = (1e-6 if hi_acc else 1e-2) * brange
    sv = np.linalg.svd(Abar * w[:, None], compute_uv=False)
    cond = sv[0] / sv[min(m, n) - 1] if sv[min(m, n) - 1] > 0 else np.inf
    regime_sys = (1.0 <= ext <= 100.0) and cond <= 1e3 and (not bounded or (np.all(hi <= 10) and np.all(hi - lo >= 0.05)))
    geometry = "under" if n > m else ("exact" if n == m else "over")
    base = dict(names, geometry=geometry, bounds_kind="bounded" if bounded else "unbounded")

    for api in ("fit", "lsq_linear"):
        if api == "lsq_linear" and names["A"] == "seeded":
            continue
        rec.path()
        rec.trans()
        _drain_status(rec)
        try:
            if api == "fit":
                X, Bp = est.fit(P, **okw)
            else:
                from dreye.api.optimize.lsq_linear import lsq_linear

                X, Bp = lsq_linear(np.array(spec["A"]), P, lb=B.arr(spec["lb"]), ub=B.arr(spec["ub"]), W=B.arr(spec["w"]), K=(None if spec["K"] is None else np.atleast_1d(B.arr(spec["K"]))),
                                   baseline=(None if spec["baseline"] is None else np.atleast_1d(B.arr(spec["baseline"]))), return_pred=True, **okw)
            err = None
        except Exception as e:  # noqa
            err = e
        if err is not None:
            # find the first failing target to localise
            bad_kind = "batch"
            for (kind, t) in T:
                rec.trans()
                try:
                    est.fit(t[None], **okw)
                except Exception:  # noqa
                    bad_kind = kind
                    break
            _v(rec, "a", dict(base, api=api, target=bad_kind, **exc_sig(err)), "%s raised %r" % (api, err), dict(api=api, target=bad_kind),
               script=_script(spec, P, okw))
            rec.outcome("exception")
            continue
        statuses = _drain_status(rec)
        X = np.asarray(X, dtype=float)
        Bp = np.asarray(Bp, dtype=float)
        if X.shape != (len(T), n) or Bp.shape != (len(T), m):
            _v(rec, "a", dict(base, exc="shape", api=api), "wrong output shapes %s %s" % (X.shape, Bp.shape), dict(api=api))
            continue
        # e: prediction is the model's capture of the returned intensities
        rec.trans()
        own = X @ Abar.T + c0
        sysc = np.asarray(est.system_relative_capture(X))
        scale = 1.0 + np.max(np.abs(own))
        if np.max(np.abs(Bp - own)) > 1e-10 * scale or np.max(np.abs(Bp - sysc)) > 1e-12 * scale:
            _v(rec, "e", dict(base, api=api), "returned prediction is not the model's capture of the returned intensities (max dev %.3g)" % np.max(np.abs(Bp - own)),
               dict(api=api), observed=Bp[:3], expected=own[:3], script=_script(spec, P, okw))
        for idx, (kind, t) in enumerate(T):
            case = dict(api=api, target=idx, kind=kind)
            x = X[idx]
            sig = dict(base, api=api, target=kind)
            in_regime = regime_sys and np.max(np.abs(t)) <= 100.0
            # b: bounds
            if np.any(x < lo - r - 1e-12) or (bounded and np.any(x > hi + r + 1e-12)):
                _v(rec, "b", dict(sig, status=(statuses[idx] if len(statuses) == len(T) else "?")), "returned intensities violate the bounds by more than the stated fraction of the range", case, observed=x, expected=dict(lb=lo, ub=hi, slack=r),
                   script=_script(spec, [t], okw))
            # c: global optimality of the weighted residual
            val = float(np.linalg.norm(w * (Abar @ x + c0 - t)))
            # `opt` = residual of a feasible point (exact optimum for n <= 6): an UPPER bound of the optimum is what refutes optimality
            opt, xs, _ = O.box_lsq_bounds(Abar, t, lo, hi, w=w, c0=c0)
            cls = "in-gamut" if opt <= 1e-9 * max(1.0, ext) else "outside"
            if in_regime:
                rec.distinct((spec, unit["solver"], api, idx))
                if val > opt + cap_tol:
                    _v(rec, "c", dict(sig, status=(statuses[idx] if len(statuses) == len(T) else "?")), "weighted residual %.6g exceeds the global optimum %.6g by more than %.0e" % (val, opt, cap_tol), case,
                       observed=dict(X=x, residual=val), expected=dict(X=xs, residual=opt, target=t), script=_script(spec, [t], okw))
                    rec.outcome("%s/suboptimal" % cls)
                else:
                    rec.outcome("%s/optimal" % cls)
                rec.stat_max("max_excess_%s" % sname, val - opt)
            else:
                rec.outcome("stress/%s" % ("ok" if val <= opt + cap_tol else "excess"))
        # the same fit for calls with exactly as many targets as receptors / as sources (sizes at which a weight vector or a bound
        # vector could be mistaken for a per-sample quantity); out-of-gamut targets first, their optimum depends on the weights
        if api == "fit" and regime_sys:
            opts = [O.box_lsq_bounds(Abar, t, lo, hi, w=w, c0=c0) for _, t in T]
            order = sorted(range(len(T)), key=lambda i: (-(opts[i][0] > 1e-6 * ext), i))
            order = [i for i in order if np.max(np.abs(T[i][1])) <= 100.0]
            for cnt in sorted({m, n}):
                sel = order[:cnt]
                if len(sel) < cnt:
                    continue
                rec.path()
                rec.trans()
                try:
                    Xc, _ = est.fit(P[sel], **okw)
                    Xc = np.asarray(Xc, dtype=float)
                except Exception as e:  # noqa
                    _v(rec, "a", dict(base, api="fit/%d-targets" % cnt, target="batch", **exc_sig(e)), "fit of %d targets raised %r" % (cnt, e), dict(api="fit", count=cnt), script=_script(spec, P[sel], okw))
                    continue
                for row, i in enumerate(sel):
                    val = float(np.linalg.norm(w * (Abar @ Xc[row] + c0 - T[i][1])))
                    okc = val <= opts[i][0] + cap_tol
                    rec.outcome("count=%s/%s" % ("receptors" if cnt == m else "sources", "optimal" if okc else "suboptimal"))
                    if not okc:
                        _v(rec, "c", dict(base, api="fit", target=T[i][0], status="count=%d" % cnt), "in a call with exactly %d targets: weighted residual %.6g exceeds the global optimum %.6g by more than %.0e" % (cnt, val, opts[i][0], cap_tol),
                           dict(api="fit", count=cnt, target=i), observed=dict(X=Xc[row], residual=val), expected=dict(X=opts[i][1], residual=opts[i][0], target=T[i][1]), script=_script(spec, P[sel], okw))
                        break
        if api == "fit":
            # integer-typed targets (pixel counts): same answer as for the same numbers as floats
            rec.path()
            rec.trans(2)
            try:
                Ti = np.unique(np.round(P[np.max(np.abs(P), axis=1) <= 100.0]).astype(np.int64), axis=0)[:6]
                Xi, Bi = est.fit(Ti, **okw)
                Xf, Bf = est.fit(Ti.astype(float), **okw)
                same = np.shape(Xi) == np.shape(Xf) and np.max(np.abs(np.asarray(Xi, dtype=float) - np.asarray(Xf, dtype=float))) <= 1e-9 and np.max(np.abs(np.asarray(Bi, dtype=float) - np.asarray(Bf, dtype=float))) <= 1e-9 * (1 + ext)
                rec.outcome("int-typed/%s" % ("same" if same else "differs"))
                if not same:
                    _v(rec, "c", dict(base, api="fit", target="int-typed", status="?"), "integer-typed targets are fitted differently from the same values as floats", dict(api="fit", dtype="int"),
                       observed=dict(X=np.asarray(Xi)[:2]), expected=dict(X=np.asarray(Xf)[:2], targets=Ti[:2]), script=_script(spec, Ti, okw))
            except Exception as e:  # noqa
                _v(rec, "a", dict(base, api="fit", target="int-typed", **exc_sig(e)), "fit of integer-typed targets raised %r" % (e,), dict(api="fit", dtype="int"))
        rec.sample(dict(system=names, api=api, n_targets=len(T), example_target=T[0][1], example_X=X[0]), cap=1)

    # per-sample weights through register_targets + fit()
    if names["weights"] != "default" and unit["solver"] == 0:
        # per-sample weights whose DIRECTION differs from row to row and from the constructor's w
        Wm = np.array([np.roll(w, k % m) * (1.0 + 0.5 * (k % 3)) + 0.25 * ((np.arange(m) + k) % 2) for k in range(len(T))])
        rec.path()
        rec.trans(2)
        try:
            est.register_targets(P, Wm)
            est.fit(**okw)
            X, Bp = np.asarray(est.X), np.asarray(est.B)
        except Exception as e:  # noqa
            _v(rec, "a", dict(base, api="register_targets+fit", **exc_sig(e)), "fit() with per-sample weights raised %r" % (e,), dict(api="registered"))
            return
        for idx, (kind, t) in enumerate(T):
            x = X[idx]
            wi = Wm[idx]
            val = float(np.linalg.norm(wi * (Abar @ x + c0 - t)))
            opt, xs, _ = O.box_lsq_bounds(Abar, t, lo, hi, w=wi, c0=c0)
            if regime_sys and np.max(np.abs(t)) <= 100.0:
                rec.distinct((spec, "W", idx))
                if val > opt + cap_tol * 1.5:
                    _v(rec, "c", dict(base, api="register_targets+fit", target=kind, weights="per-sample"), "per-sample weighted residual %.6g exceeds the optimum %.6g" % (val, opt),
                       dict(api="registered", target=idx), observed=dict(X=x), expected=dict(X=xs, target=t))
                rec.outcome("per-sample-W/%s" % ("optimal" if val <= opt + cap_tol * 1.5 else "suboptimal"))
