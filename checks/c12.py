"""
C12 - gamut-corrective scalings keep hue and ratios and land in the chromatic gamut.

Systems with finite ub whose neutral point is inside the chromatic gamut (2, 3, 4 receptors) x K x baseline x
{relative, absolute} x neutral in {default, given} x target sets from a lattice (all inside / some outside / with
all-zero rows / single row).  Oracle: own chromaticity map (plane coordinates) + brute-force hull.
"""

import itertools

import numpy as np

from mc import alphabets as AL
from mc import build as B
from mc import oracles as O
from mc.kernel import exc_sig

PROPERTY = "C12"
RULE = "unit = one system; paths = scaling calls per (capture kind, neutral point, target set); non-trivial = target sets with at least one out-of-gamut chromaticity (dist) / any non-zero set (L1); distinct by (system, variant, set)"
ASSUMPTIONS = ["non-negative systems only (the API asserts it)", "tightness of the common saturation factor is reported, not asserted (the statement does not claim it)",
               "'smallest single-source maximum' = min over receptors of max over sources of (K.A)_ik ub_k"]
BOUNDS = {"quick": "shapes 2x2 2x3 3x3 3x4 4x4 4x5 x 2-3 matrices x (bounds, K, baseline) <= 2 deviations; the plain systems again in capture units x1e-4, x1e4", "thorough": "plus 3x5 4x6, full cross"}
TECHNIQUE = "all systems of the menu x target-set lattice x variants; closed-form ratio / collinearity / containment oracles"
LEVEL_TEXT = "every enumerated (system, relative/absolute, neutral point, target set) is pushed through gamut_l1_scaling and gamut_dist_scaling; common ratio, the new maximum, preserved totals, hue collinearity with one common factor in (0,1], containment of every scaled chromaticity in the chromatic gamut (brute-force hull), identity on in-gamut sets and zero rows are decided exactly"
LEVEL_NOTE = "small scope (2-4 receptors, <= 6 sources)"
KE = ("exc", "msg", "api", "capture", "receptors")
KV = ("api", "what", "capture", "receptors", "set")


def _v(rec, clause, sig, *a, **k):
    rec.violation(clause, sig, *a, keys=(KE if "exc" in sig else KV), **k)


def units(tier, seed):
    shapes = [(2, 2), (2, 3), (3, 3), (3, 4), (4, 4), (4, 5)] + ([] if tier == "quick" else [(3, 5), (4, 6)])
    out = []
    plain = {}
    gen = AL.systems(shapes, seed=seed, order=2, bounds=["ub-finite", "lb-mixed", "scalar"], Ks=["default", "scalar", "vector", "matrix-pos"], cross=(tier != "quick"), zeros=True)
    for names, A, (lb, ub), K, bl in gen:
        if tier == "quick" and names["A"] in ("perm", "seeded") and sum(names[k] not in ("default", "ub-finite") for k in ("bounds", "K", "baseline")) > 1:
            continue  # second-order deviations only for the 'asc' and 'zeros' matrices in the quick tier
        out.append(dict(names=names, spec=B.spec_of(A, lb, ub, K, bl), tier=tier))
        if names["K"] == "default" and names["baseline"] == "default" and names["bounds"] in ("ub-finite", "lb-mixed") and names["A"] in ("asc", "zeros"):
            plain.setdefault((names["shape"], names["bounds"], names["A"]), (names, A, lb, ub))
    # the same plain systems in other units of capture (both scalings are statements about ratios)
    for key, (names, A, lb, ub) in sorted(plain.items()):
        for label, sc in (("x1e-4", 1e-4), ("x1e4", 1e4)):
            out.append(dict(names=dict(names, capture_unit=label), spec=B.spec_of(A * sc, lb, ub, None, None), tier=tier))
    return out


def _plane_basis(m):
    M = np.eye(m) - 1.0 / m
    q, _ = np.linalg.qr(M[:, : m - 1])
    return q.T


def _chroma(X, Bas):
    X = np.atleast_2d(X)
    return (X / X.sum(1, keepdims=True) - 1.0 / X.shape[1]) @ Bas.T


def run_unit(unit, rec):
    spec, names = unit["spec"], unit["names"]
    est = B.make_est(spec, rec=rec)
    rec.state(B.state_key(est))
    m = len(spec["A"])
    Bas = _plane_basis(m)
    for relative in (True, False):
        Abar, c0, lo, hi = B.model_of(spec, relative)
        n = Abar.shape[1]
        cap = "relative" if relative else "absolute"
        sig0 = dict(capture=cap, receptors=m)
        if np.any(Abar < 0) or np.any(c0 < 0):
            continue
        V = c0 + AL.lattice(lo, hi, (0.0, 1.0)) @ Abar.T
        V = V[V.sum(1) > 0]
        Y = _chroma(V, Bas)
        hr = O.hull_hrep(Y) if m > 2 else (np.array([[1.0], [-1.0]]), np.array([-Y.max(), Y.min()])) if (Y.max() - Y.min()) > 1e-9 else None
        if hr is None:
            continue
        # ---------------- target sets
        Xin = AL.lattice(lo, hi, (0.25, 0.75))[:: max(1, 2 ** n // 6)]
        T_in = c0 + Xin @ Abar.T
        sat = []
        for i in range(m):
            e = np.full(m, 0.05)
            e[i] = 1.0
            sat.append(e * (1.0 + i))
        T_out = np.array(sat)
        sets = {
            "all-inside": T_in,
            "some-outside": np.vstack([T_in[:2], T_out]),
            "all-outside": T_out,
            "with-zero-rows": np.vstack([np.zeros(m), T_in[:1], T_out[:2], np.zeros(m)]),
            "inside-with-zero-rows": np.vstack([T_in[:2], np.zeros(m), T_in[2:3]]),
            "only-zero-rows": np.zeros((2, m)),
            # dim but non-zero rows (captures of order 1e-9 among ordinary rows): they have a chromaticity like any other row
            "with-dim-rows": np.vstack([T_in[:1], T_out[:1] * 3e-9, T_out[1:2], T_in[1:2] * 1e-9]),
            "single-outside": T_out[:1],
            "single-inside": T_in[:1],
        }
        amax = float(np.min(np.max(Abar * hi, axis=1)))
        # ---------------- L1 scaling
        for sname, T in sets.items():
            if "zero-rows" in sname:
                Tl = T[np.any(T != 0, axis=1)]
                if len(Tl) == 0:
                    continue
            else:
                Tl = T
            Tl = np.maximum(Tl, c0) + 0.0  # light-induced part non-negative
            if np.max(Tl - c0) <= 0:
                continue
            rec.path()
            rec.trans()
            sig = dict(sig0, api="gamut_l1_scaling", set=sname)
            case = dict(relative=relative, set=sname, api="l1")
            keep = Tl.copy()
            try:
                out = np.asarray(est.gamut_l1_scaling(Tl, relative=relative), dtype=float)
            except Exception as e:  # noqa
                _v(rec, "h", dict(sig, **exc_sig(e)), "gamut_l1_scaling raised %r" % (e,), case)
                continue
            rec.distinct((spec, relative, "l1", sname))
            bad = None
            lin, lout = Tl - c0, out - c0
            nz = np.abs(lin) > 1e-12
            ratios = lout[nz] / lin[nz]
            if not np.array_equal(Tl, keep):
                bad = ("a", "the caller's array was modified")
            elif out.shape != Tl.shape:
                bad = ("a", "wrong shape")
            elif ratios.size and (np.min(ratios) <= 0 or np.max(ratios) - np.min(ratios) > 1e-10 * max(1.0, abs(np.max(ratios)))):
                bad = ("a", "the light-induced parts are not multiplied by one common positive factor")
            elif np.max(np.abs(lout[~nz])) > 1e-12 if np.any(~nz) else False:
                bad = ("a", "zero light-induced entries changed")
            elif abs(np.max(lout) - amax) > 1e-10 * (1 + amax):
                bad = ("b", "largest light-induced capture %.10g is not the smallest single-source maximum %.10g" % (np.max(lout), amax))
            rec.outcome("l1-scaling/%s" % ("ok" if bad is None else "bad"))
            if bad:
                _v(rec, bad[0], dict(sig, what=bad[1][:40]), bad[1], case, observed=out[:3], expected=dict(input=Tl[:3], amax=amax, c0=c0),
                   script=B.script_est(spec) + "T = np.array(%r)\nprint(est.gamut_l1_scaling(T, relative=%r))\n" % (Tl.tolist(), relative))
        # ---------------- distance (saturation) scaling
        for nname, neutral in (("default", None), ("given", None)):
            if nname == "given":
                # a neutral point strictly inside the chromatic gamut: the chromaticity of the mid-intensity capture
                neutral = c0 + Abar @ ((lo + hi) / 2)
                neutral = neutral / neutral.sum() * m
            npt = np.ones(m) if neutral is None else neutral
            yc = _chroma(npt, Bas)[0]
            mgc = O.hull_margin(Y, yc[None])[0] if m > 2 else min(yc[0] - Y.min(), Y.max() - yc[0])
            if mgc <= 1e-6:
                rec.outcome("neutral-outside-chromatic-gamut/skipped")
                continue
            for sname, T in sets.items():
                rec.path()
                rec.trans()
                sig = dict(sig0, api="gamut_dist_scaling", set=sname, neutral=nname)
                case = dict(relative=relative, set=sname, neutral=nname, api="dist")
                keep = T.copy()
                scr = B.script_est(spec) + "T = np.array(%r)\nprint(est.gamut_dist_scaling(T, neutral_point=%s, relative=%r))\n" % (T.tolist(), "None" if neutral is None else "np.array(%r)" % (neutral.tolist(),), relative)
                try:
                    out = np.asarray(est.gamut_dist_scaling(T, neutral_point=neutral, relative=relative), dtype=float)
                except Exception as e:  # noqa
                    _v(rec, "h", dict(sig, **exc_sig(e)), "gamut_dist_scaling raised %r" % (e,), case, script=scr)
                    rec.outcome("dist-scaling/exception")
                    continue
                zero = ~np.any(T != 0, axis=1)
                Tn, On = T[~zero], out[~zero] if out.shape == T.shape else None
                if len(Tn) == 0:
                    rec.outcome("dist-scaling-only-zero/%s" % ("ok" if (out.shape == T.shape and not np.any(out)) else "bad"))
                    if not (out.shape == T.shape and not np.any(out)):
                        _v(rec, "g", dict(sig, what="all-zero rows do not stay zero"), "all-zero rows do not stay zero", case, observed=out, script=scr)
                    continue
                yin = _chroma(Tn, Bas)
                mg_in = O.hull_margin(Y, yin) if m > 2 else np.minimum(yin[:, 0] - Y.min(), Y.max() - yin[:, 0])
                all_inside = bool(np.all(mg_in >= 1e-9))
                any_outside = bool(np.any(mg_in <= -1e-9))
                if any_outside:
                    rec.distinct((spec, relative, nname, sname))
                bad = None
                if not np.array_equal(T, keep):
                    bad = ("f", "the caller's array was modified")
                elif out.shape != T.shape or not np.all(np.isfinite(out)):
                    bad = ("h", "malformed result")
                elif np.any(out[zero] != 0):
                    bad = ("g", "all-zero rows do not stay zero")
                elif np.any(np.abs(On.sum(1) - Tn.sum(1)) > 1e-9 * np.abs(Tn.sum(1))):
                    bad = ("c", "total capture of a target changed")
                elif all_inside and np.max(np.abs(out - T)) > 1e-12 * (1 + np.max(np.abs(T))):
                    bad = ("f", "targets already inside the chromatic gamut were changed")
                else:
                    yout = _chroma(On, Bas)
                    oin, oout = yin - yc, yout - yc
                    # one common alpha in (0, 1]
                    big = np.linalg.norm(oin, axis=1) > 1e-9
                    if np.any(big):
                        alphas = np.sum(oout[big] * oin[big], axis=1) / np.sum(oin[big] ** 2, axis=1)
                        resid = np.max(np.linalg.norm(oout[big] - alphas[:, None] * oin[big], axis=1))
                        if resid > 1e-9:
                            bad = ("d", "hue direction from the neutral point changed (off-axis component %.3g)" % resid)
                        elif np.max(alphas) - np.min(alphas) > 1e-9:
                            bad = ("d", "saturations are not contracted by one common factor (%.6g .. %.6g)" % (np.min(alphas), np.max(alphas)))
                        elif np.min(alphas) <= 0 or np.max(alphas) > 1 + 1e-9:
                            bad = ("d", "saturation factor %.6g is not in (0, 1]" % np.min(alphas))
                        else:
                            rec.stat_max("alpha_min", float(np.min(alphas)))
                    if bad is None:
                        mo = O.hull_margin(Y, yout) if m > 2 else np.minimum(yout[:, 0] - Y.min(), Y.max() - yout[:, 0])
                        if np.min(mo) < -1e-9:
                            bad = ("e", "a scaled chromaticity lies outside the chromatic gamut (by %.3g)" % -np.min(mo))
                        elif any_outside:
                            rec.stat_max("tightness_gap", float(np.min(mo)))
                if bad is None and np.any(zero) and any_outside:
                    # all-zero rows have no chromaticity: the common factor of the other rows does not depend on their presence
                    rec.trans()
                    try:
                        out2 = np.asarray(est.gamut_dist_scaling(Tn.copy(), neutral_point=neutral, relative=relative), dtype=float)
                        if out2.shape != On.shape or np.max(np.abs(out2 - On)) > 1e-9 * (1 + np.max(np.abs(On))):
                            bad = ("g", "all-zero rows change the result of the other rows (max dev %.3g)" % (np.max(np.abs(out2 - On)) if out2.shape == On.shape else np.nan))
                    except Exception as e:  # noqa
                        bad = ("h", "the same set without its all-zero rows raised %r" % (e,))
                rec.outcome("dist-scaling-%s/%s" % ("inside" if all_inside else ("outside" if any_outside else "boundary"), "ok" if bad is None else "bad"))
                if bad:
                    _v(rec, bad[0], dict(sig, what=bad[1][:40]), bad[1], case, observed=out[:4], expected=dict(input=T[:4]), script=scr)
    rec.sample(dict(system=names), cap=1)
