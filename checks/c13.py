"""
C13 - samples drawn in the gamut are in the gamut, reproducible and uniform.

Clouds in 2-4 dimensions (lattice sub-clouds with interior / collinear points, skewed hulls, gamut vertex sets) and
registered systems x n in {1, 2, 7, 100, 10^4 (10^5 thorough)} x engine in {None, Halton, Sobol, LHC} x seeds x l1.
Oracles: brute-force hull H-rep / zonotope margin (membership), clipped-hull volumes (uniformity: half-space cell
frequencies within a Hoeffding bound at delta = 1e-9, a deterministic predicate per seed).
"""

import itertools
import math

import numpy as np

from mc import alphabets as AL
from mc import build as B
from mc import oracles as O
from mc.kernel import exc_sig

PROPERTY = "C13"
RULE = ("unit = cloud or system family; paths = sampling calls per (cloud, n, engine, seed, l1); non-trivial = n >= 2; distinct by all of these")
ASSUMPTIONS = ["uniformity is decided to a stated resolution only: frequencies of half-space cells (thirds along every axis and along the main diagonal) must lie within sqrt(ln(2/1e-9)/(2n)) of the cell's volume fraction (0.033 for n = 1e4, 0.010 for n = 1e5)",
               "membership tolerance 1e-9 x extent"]
BOUNDS = {"quick": "2-D: 40 lattice sub-clouds + skewed hulls; 3-D/4-D fixed clouds; 6 systems; seeds {0,1,2,3,VERIF_SEED}", "thorough": "all 2-D sub-clouds of size 3-5, n up to 1e5"}
TECHNIQUE = "exhaustive menu of clouds/systems x sample counts x engines x seeds x totals; membership by exact H-representations; uniformity by cell frequencies against exact clipped-hull volumes"
LEVEL_TEXT = "every (cloud or system, n, engine, seed, l1) of the menu is sampled; count, membership of every sample, totals and seed-reproducibility are decided exactly; uniformity to the stated Monte-Carlo resolution against exact volumes of half-space cells"
LEVEL_NOTE = "distributional claim decided only to the stated resolution; clouds of <= 32 points in 2-4 dimensions"
KE = ("exc", "msg", "api", "engine", "l1")
KV = ("api", "what", "engine", "l1", "family")
ENGINES = [None, "Halton", "Sobol", "LHC"]


def _v(rec, clause, sig, *a, **k):
    rec.violation(clause, sig, *a, keys=(KE if "exc" in sig else KV), **k)


def units(tier, seed):
    out = [dict(kind="lat2", part=p, tier=tier, seed=seed) for p in range(4)]
    out += [dict(kind="fixed", which=w, tier=tier, seed=seed) for w in range(8)]
    out += [dict(kind="system", which=w, tier=tier, seed=seed) for w in range(6)]
    return out


def clip_volume_fraction(P, a, theta, vol):
    """volume fraction of conv(P) in the half-space a.x <= theta (exact up to round-off)."""
    # work in normalised coordinates (the fraction is scale-free; the de-duplication below rounds absolutely)
    sc = float(np.max(np.abs(P - P.mean(0)))) or 1.0
    c_ = P.mean(0)
    theta = (theta - float(c_ @ a)) / sc
    P = (P - c_) / sc
    vol = O.hull_volume(P)
    s = P @ a
    pts = [p for p, v in zip(P, s) if v <= theta + 1e-12]
    for i, j in itertools.combinations(range(len(P)), 2):
        if (s[i] - theta) * (s[j] - theta) < 0:
            t = (theta - s[i]) / (s[j] - s[i])
            pts.append(P[i] + t * (P[j] - P[i]))
    if len(pts) <= P.shape[1]:
        return 0.0
    Q = np.unique(np.round(np.array(pts), 12), axis=0)
    if O.hull_hrep(Q) is None:
        return 0.0
    return O.hull_volume(Q) / vol


def hull_vertices(P):
    hr = O.hull_hrep(P)
    N, off = hr
    scale = max(1.0, float(np.max(np.abs(P))))
    on = np.sum(np.abs(P @ N.T + off) <= 1e-9 * scale, axis=1) >= P.shape[1]
    return P[on]


def _check_samples(rec, sig, case, X, n, d, margin_fn, ext):
    bad = None
    X = np.asarray(X, dtype=float)
    if X.shape != (n, d):
        bad = ("a", "returned shape %s instead of (%d, %d)" % (X.shape, n, d))
    elif not np.all(np.isfinite(X)):
        bad = ("b", "non-finite samples")
    else:
        mg = margin_fn(X)
        worst = float(np.min(mg))
        rec.stat_max("worst_outside", -worst / ext)
        if worst < -1e-9 * ext:
            bad = ("b", "%d of %d samples lie outside the hull (worst by %.3g, extent %.3g)" % (int(np.sum(mg < -1e-9 * ext)), n, -worst, ext))
    return bad


def _run_cloud(rec, dreye, name, P, family, tier, seed, uniform=True):
    d = P.shape[1]
    hr = O.hull_hrep(P)
    if hr is None:
        return
    ext = float(np.max(P.max(0) - P.min(0)))
    vol = O.hull_volume(P)
    V = hull_vertices(P)
    seeds = sorted({0, 1, 2, 3, int(seed)})
    ns = [1, 2, 7, 100]
    for engine in ENGINES:
        for n, sd in itertools.product(ns, seeds[:3] if engine else seeds):
            if engine == "Sobol" and n not in (1, 2):
                n_ = {7: 8, 100: 128}.get(n, n)  # Sobol balance warning otherwise; still a legal request
            else:
                n_ = n
            sig = dict(family=family, api="dreye.sample_in_hull", engine=str(engine), l1="none")
            case = dict(cloud=name, n=n_, seed=sd, engine=engine)
            rec.path()
            rec.trans(2)
            try:
                X = dreye.sample_in_hull(P, n_, seed=sd, engine=engine)
                X2 = dreye.sample_in_hull(P.copy(), n_, seed=sd, engine=engine)
            except Exception as e:  # noqa
                _v(rec, "a", dict(sig, **exc_sig(e)), "sample_in_hull raised %r" % (e,), case,
                   script="import numpy as np, dreye\nprint(dreye.sample_in_hull(np.array(%r), %d, seed=%d, engine=%r))\n" % (P.tolist(), n_, sd, engine))
                rec.outcome("exception")
                continue
            if n_ >= 2:
                rec.distinct((name, n_, sd, engine))
            bad = _check_samples(rec, sig, case, X, n_, d, lambda Y: O.hull_margin(P, Y), ext)
            if bad is None and not np.array_equal(np.asarray(X), np.asarray(X2)):
                bad = ("d", "two calls with the same seed return different samples")
            rec.outcome("%s/%s" % ("pseudo" if engine is None else "qmc", "ok" if bad is None else "bad"))
            if bad:
                _v(rec, bad[0], dict(sig, what=bad[1][:40]), bad[1], case, observed=np.asarray(X)[:3],
                   script="import numpy as np, dreye\nprint(dreye.sample_in_hull(np.array(%r), %d, seed=%d, engine=%r))\n" % (P.tolist(), n_, sd, engine))
    # ---- integer-typed clouds (lattice points given as int arrays): the same samples as for the same values as floats
    if np.all(P == np.round(P)):
        for engine in (None, "Halton"):
            rec.path()
            rec.trans(2)
            sig = dict(family=family, api="dreye.sample_in_hull", engine=str(engine), l1="none")
            try:
                Xi = np.asarray(dreye.sample_in_hull(P.astype(np.int64), 64, seed=5, engine=engine), dtype=float)
                Xf = np.asarray(dreye.sample_in_hull(P.astype(float), 64, seed=5, engine=engine), dtype=float)
                same = Xi.shape == Xf.shape and bool(np.array_equal(Xi, Xf))
                # 8-bit clouds (pixel values): scaled so that edge differences exceed the range of the type if they were formed in it
                f8 = 200.0 / max(1.0, float(np.max(P)))
                P8 = np.round(P * f8)
                if np.all(P8 >= 0):
                    X8 = np.asarray(dreye.sample_in_hull(P8.astype(np.uint8), 64, seed=5, engine=engine), dtype=float)
                    X8f = np.asarray(dreye.sample_in_hull(P8.astype(float), 64, seed=5, engine=engine), dtype=float)
                    same = same and X8.shape == X8f.shape and bool(np.array_equal(X8, X8f))
            except Exception as e:  # noqa
                same = False
            rec.outcome("int-typed-cloud/%s" % ("same" if same else "differs"))
            if not same:
                _v(rec, "b", dict(sig, what="int-typed cloud"), "samples of an integer-typed cloud differ from those of the same cloud given as floats", dict(cloud=name, engine=engine, dtype="int"),
                   script="import numpy as np, dreye\nP = np.array(%r)\nprint(dreye.sample_in_hull(P, 8, seed=5), dreye.sample_in_hull(P.astype(float), 8, seed=5))\n" % (P.astype(np.int64).tolist(),))
    # ---- engine given as a QMCEngine instance / seed given as a Generator (both documented)
    from scipy.stats import qmc

    for label, mk in (("Halton-instance", lambda: dict(engine=qmc.Halton(d + 1, seed=3), seed=3)), ("Generator-seed", lambda: dict(seed=np.random.default_rng(11)))):
        rec.path()
        rec.trans(2)
        sig = dict(family=family, api="dreye.sample_in_hull", engine=label, l1="none")
        case = dict(cloud=name, variant=label)
        try:
            X = dreye.sample_in_hull(P, 64, **mk())
            X2 = dreye.sample_in_hull(P, 64, **mk())
        except Exception as e:  # noqa
            _v(rec, "a", dict(sig, **exc_sig(e)), "sample_in_hull raised %r" % (e,), case)
            continue
        rec.distinct((name, label))
        bad = _check_samples(rec, sig, case, X, 64, d, lambda Y: O.hull_margin(P, Y), ext)
        if bad is None and not np.array_equal(np.asarray(X), np.asarray(X2)):
            bad = ("d", "two calls with identically seeded %s return different samples" % label)
        rec.outcome("instance/%s" % ("ok" if bad is None else "bad"))
        if bad:
            _v(rec, bad[0], dict(sig, what=bad[1][:40]), bad[1], case, observed=np.asarray(X)[:3])
    # ---- uniformity, exact mechanism layer (scripted randomness)
    _mechanism(rec, dreye, name, P, family)
    # ---- uniformity, statistical layer (default engine)
    if not uniform:
        return
    nU = 10000 if tier == "quick" else 100000
    bound = math.sqrt(math.log(2 / 1e-9) / (2 * nU))
    cells = []
    for j in range(d):
        a = np.zeros(d)
        a[j] = 1.0
        lo_, hi_ = V[:, j].min(), V[:, j].max()
        for f in (1 / 3.0, 2 / 3.0):
            cells.append((a, lo_ + f * (hi_ - lo_)))
    a = np.ones(d)
    s = V @ a
    for f in (0.3, 0.6):
        cells.append((a, s.min() + f * (s.max() - s.min())))
    fracs = [clip_volume_fraction(V, a, th, vol) for a, th in cells]
    # oracle self-check against a second, independent method (qhull on the clipped point set): a disagreement is a
    # problem of the harness, never a verdict on dreye - the cell is dropped and counted
    try:
        from scipy.spatial import ConvexHull

        keep = []
        for (a, th), fr in zip(cells, fracs):
            sv = V @ a
            pts = [p for p, v_ in zip(V, sv) if v_ <= th]
            for i, j in itertools.combinations(range(len(V)), 2):
                if (sv[i] - th) * (sv[j] - th) < 0:
                    pts.append(V[i] + (th - sv[i]) / (sv[j] - sv[i]) * (V[j] - V[i]))
            try:
                ref = ConvexHull(np.array(pts)).volume / ConvexHull(V).volume if len(pts) > d else 0.0
            except Exception:  # noqa - degenerate clipped set
                ref = fr
            if abs(ref - fr) > 1e-6:
                rec.count("oracle-self-check-disagreement")
            else:
                keep.append(((a, th), fr))
        cells, fracs = [k[0] for k in keep], [k[1] for k in keep]
    except ImportError:
        pass
    for sd in seeds[:2] + [int(seed) + 10]:
        sig = dict(family=family, api="dreye.sample_in_hull", engine="None", l1="none")
        case = dict(cloud=name, n=nU, seed=sd, uniformity=True)
        rec.path()
        rec.trans()
        try:
            X = np.asarray(dreye.sample_in_hull(P, nU, seed=sd))
        except Exception as e:  # noqa
            _v(rec, "e", dict(sig, **exc_sig(e)), "sample_in_hull raised %r" % (e,), case)
            continue
        rec.distinct((name, "uniform", sd))
        worst = 0.0
        for (a, th), fr in zip(cells, fracs):
            freq = float(np.mean(X @ a <= th))
            worst = max(worst, abs(freq - fr))
        rec.stat_max("worst_cell_deviation_over_bound", worst / bound)
        ok = worst <= bound
        rec.outcome("uniform/%s" % ("ok" if ok else "bad"))
        if not ok:
            _v(rec, "e", dict(sig, what="cell-frequency"), "a half-space cell receives samples out of proportion to its volume (|freq - volume fraction| = %.4f > %.4f)" % (worst, bound), case,
               observed=dict(worst=worst), expected=dict(bound=bound, cells=[(a.tolist(), th, fr) for (a, th), fr in zip(cells, fracs)][:4]),
               script="import numpy as np, dreye\nX = dreye.sample_in_hull(np.array(%r), %d, seed=%d)\nprint(X.mean(0))\n" % (P.tolist(), nU, sd))


def _mechanism(rec, dreye, name, P, family):
    """Exact layer for 'uniform': own the randomness with a scripted numpy Generator.  The generator answers every
    simplex index in turn (recording the probability vector it is handed) and hands out chosen barycentric weights
    (one-hot = the simplex's vertices, then the centroid).  Uniformity then follows from three exact facts:
    (1) the recorded probabilities are the simplices' volume fractions, (2) the simplices lie in the hull and their
    volumes add up to the hull's volume (=> they tile it), (3) a sample is the barycentric image of its weights
    (uniform Dirichlet(1,..,1) weights on a simplex are uniform on it).  If the implementation consumes randomness
    differently the layer reports 'not observable' and asserts nothing."""
    d = P.shape[1]
    log = dict(p=None, nchoice=0, ndir=0, alpha=None)

    class Scripted(np.random.Generator):
        def choice(self, a, size=None, replace=True, p=None, axis=0, shuffle=True):
            log["nchoice"] += 1
            log["p"] = None if p is None else np.array(p, dtype=float)
            log["S"] = int(a)
            return np.arange(int(size)) // (d + 2) % int(a)

        def dirichlet(self, alpha, size=None):
            log["ndir"] += 1
            log["alpha"] = np.array(alpha, dtype=float)
            n_ = int(size if np.ndim(size) == 0 else size[0])
            W = np.vstack([np.eye(d + 1), np.full((1, d + 1), 1.0 / (d + 1))])
            return W[np.arange(n_) % (d + 2)]

    sig = dict(family=family, api="dreye.sample_in_hull", engine="None", l1="none")
    case = dict(cloud=name, mechanism=True)
    rec.path()
    rec.trans(2)
    try:
        g0 = Scripted(np.random.PCG64(0))
        dreye.sample_in_hull(P, d + 2, seed=g0)  # first call only to learn the number of simplices
        S = log.get("S")
        if not S or log["nchoice"] != 1 or log["ndir"] != 1:
            rec.count("mechanism-not-observable")
            return
        g = Scripted(np.random.PCG64(0))
        X = np.asarray(dreye.sample_in_hull(P, S * (d + 2), seed=g), dtype=float)
    except Exception:  # noqa - not observable this way; the statistical layer still decides
        rec.count("mechanism-not-observable")
        return
    if X.shape != (S * (d + 2), d) or log["p"] is None or len(log["p"]) != S:
        rec.count("mechanism-not-observable")
        return
    rec.distinct((name, "mechanism"))
    verts = X.reshape(S, d + 2, d)[:, : d + 1, :]
    cents = X.reshape(S, d + 2, d)[:, d + 1, :]
    vols = np.abs(np.linalg.det(verts[:, 1:, :] - verts[:, :1, :])) / math.factorial(d)
    hv = O.hull_volume(P)
    scale = max(1.0, float(np.max(np.abs(P))))
    bad = None
    if np.max(np.abs(cents - verts.mean(1))) > 1e-12 * scale:
        # the scripted answers were not consumed in the order this decoding assumes (a legitimate implementation may
        # reorder or batch its draws): nothing can be read off, the statistical layer decides alone
        rec.count("mechanism-not-observable")
        return
    if not np.allclose(log["alpha"], 1.0):
        bad = "barycentric weights are not drawn from Dirichlet(1, ..., 1)"
    elif np.min(O.hull_margin(P, verts.reshape(-1, d))) < -1e-9 * scale:
        bad = "a sampling simplex sticks out of the hull"
    elif abs(vols.sum() - hv) > 1e-9 * max(1.0, hv):
        bad = "the sampling simplices do not tile the hull (their volumes add up to %.10g, the hull has %.10g)" % (vols.sum(), hv)
    elif np.max(np.abs(log["p"] - vols / vols.sum())) > 1e-12:
        bad = "simplices are not chosen with probability proportional to their volume (max deviation %.3g)" % np.max(np.abs(log["p"] - vols / vols.sum()))
    rec.outcome("mechanism/%s" % ("exact" if bad is None else "bad"))
    if bad:
        _v(rec, "e", dict(sig, what="mechanism: " + bad[:50]), bad, case, observed=dict(p=log["p"][:6], volumes=vols[:6]), expected=dict(hull_volume=hv))


def run_unit(unit, rec):
    import dreye

    kind, tier, seed = unit["kind"], unit["tier"], unit["seed"]
    rec.state((kind, unit.get("part"), unit.get("which")))
    if kind == "lat2":
        base = [np.array(p, dtype=float) for p in itertools.product(range(3), repeat=2)]
        combos = [S for size in (3, 4, 5) for S in itertools.combinations(range(9), size)]
        combos = combos[unit["part"] :: 4]
        if tier == "quick":
            combos = combos[::8]
        for k, S in enumerate(combos):
            P = np.array([base[i] for i in S])
            _run_cloud(rec, dreye, ("lat2", S), P, "lattice-2d", tier, seed, uniform=(k % 3 == 0))
        rec.sample(dict(kind=kind, clouds=len(combos), example=[base[i].tolist() for i in combos[0]]), cap=1)
    elif kind == "fixed":
        w = unit["which"]
        clouds = [
            ("skewed-2d", np.array([[0.0, 0.0], [10.0, 0.5], [10.0, 1.0], [0.2, 0.1], [5.0, 0.5], [9.0, 0.8]])),
            ("needle+blob-2d", np.array([[0.0, 0.0], [1.0, 0.0], [0.0, 1.0], [8.0, 0.05], [0.5, 0.5], [0.25, 0.25]])),
            ("cube+interior-3d", np.vstack([np.array(list(itertools.product((0.0, 1.0), repeat=3))), [[0.5, 0.5, 0.5], [0.5, 0.0, 0.0]]])),
            ("skewed-3d", np.array([[0.0, 0, 0], [4.0, 0.2, 0], [0, 1.0, 0], [0, 0, 0.5], [4.0, 1.0, 0.5], [1.0, 0.25, 0.1]])),
            ("simplex-4d", np.vstack([np.zeros(4), np.eye(4) * np.array([1.0, 2.0, 0.5, 3.0])])),
            ("zonotope-3d", AL.lattice(np.zeros(4), np.array([1.0, 1.25, 1.5, 1.75]), (0.0, 1.0)) @ AL.gauss_A(3, [0, 2, 4, 6]).T),
            ("skewed-2d-tiny", np.array([[0.0, 0.0], [10.0, 0.5], [10.0, 1.0], [0.2, 0.1], [5.0, 0.5], [9.0, 0.8]]) * 2e-5),
            ("skewed-3d-tiny", np.array([[0.0, 0, 0], [4.0, 0.2, 0], [0, 1.0, 0], [0, 0, 0.5], [4.0, 1.0, 0.5], [1.0, 0.25, 0.1]]) * 1e-3),
        ]
        name, P = clouds[w]
        _run_cloud(rec, dreye, name, P, name, tier, seed, uniform=(P.shape[1] <= 3 and len(P) <= 16))
        rec.sample(dict(kind=kind, cloud=name, points=P[:4]), cap=1)
    else:
        w = unit["which"]
        specs = []
        for (m, n), bn, kn, sn in (((2, 2), "ub-finite", "default", "default"), ((2, 3), "lb-mixed", "vector", "scalar"), ((3, 3), "scalar", "default", "vector"),
                                   ((3, 4), "ub-finite", "matrix-pos", "default"), ((3, 5), "lb-pos", "scalar", "default"), ((4, 4), "ub-finite", "vector", "vector")):
            A = AL.A_palette(m, n, seeded=False)[-1][1]
            bm = {b[0]: b for b in AL.bounds_menu(n)}[bn]
            specs.append((dict(shape="%dx%d" % (m, n), bounds=bn, K=kn, baseline=sn), B.spec_of(A, bm[1], bm[2], dict(AL.K_menu(m))[kn], dict(AL.baseline_menu(m))[sn])))
        names, spec = specs[w]
        est = B.make_est(spec, rec=rec)
        for relative in (True, False):
            Abar, c0, lo, hi = B.model_of(spec, relative)
            m, n = Abar.shape
            ext = float(np.max(np.abs(Abar) @ (hi - lo)))
            tot_lo, tot_hi = float(np.sum(c0 + Abar @ lo)), float(np.sum(c0 + Abar @ hi))
            l1s = [None] + [tot_lo + f * (tot_hi - tot_lo) for f in (0.25, 0.5, 0.75)]
            for l1 in l1s:
                for engine in ENGINES:
                    for nn, sd in itertools.product((1, 7, 128, 2000), (0, 1, int(seed) + 2)):
                        if (engine is not None or l1 is not None) and nn == 2000 and sd != 0:
                            continue
                        sig = dict(family="system", api="ReceptorEstimator.sample_in_gamut", engine=str(engine), l1="none" if l1 is None else "given")
                        case = dict(system=names, n=nn, seed=sd, engine=engine, l1=l1, relative=relative)
                        rec.path()
                        rec.trans(2)
                        scr = B.script_est(spec) + "X = est.sample_in_gamut(n=%d, seed=%d, engine=%r, l1=%r, relative=%r)\nprint(X)\n" % (nn, sd, engine, l1, relative)
                        try:
                            X = est.sample_in_gamut(n=nn, seed=sd, engine=engine, l1=l1, relative=relative)
                            X2 = est.sample_in_hull(n=nn, seed=sd, engine=engine, l1=l1, relative=relative)
                        except Exception as e:  # noqa
                            _v(rec, "a", dict(sig, **exc_sig(e)), "sample_in_gamut raised %r" % (e,), case, script=scr)
                            rec.outcome("system-exception")
                            continue
                        if nn >= 2:
                            rec.distinct((w, relative, l1, engine, nn, sd))
                        bad = _check_samples(rec, sig, case, X, nn, m, lambda Y: O.zono_margin(Y, Abar, c0, lo, hi), ext)
                        if bad is None and l1 is not None and np.max(np.abs(np.asarray(X).sum(1) - l1)) > 1e-10 * (1 + abs(l1)):
                            bad = ("c", "samples do not have the requested total capture")
                        if bad is None and not np.array_equal(np.asarray(X), np.asarray(X2)):
                            bad = ("d", "two calls with the same seed return different samples")
                        if bad is None and l1 is not None and engine is None and nn == 2000 and n <= 5:
                            # coverage of the slice {gamut, total = l1}: for a convex body of dimension k the cap of relative depth t under a
                            # support point has at least the fraction t^k of the volume, so 2000 uniform samples miss it with probability
                            # <= (1 - t^k)^2000 (< 1e-13 for the values below)
                            Vz = c0 + AL.lattice(lo, hi, (0.0, 1.0)) @ Abar.T
                            sz = Vz.sum(1)
                            Z = [v for v, s_ in zip(Vz, sz) if abs(s_ - l1) <= 1e-12]
                            for i_, j_ in itertools.combinations(range(len(Vz)), 2):
                                if (sz[i_] - l1) * (sz[j_] - l1) < 0:
                                    t_ = (l1 - sz[i_]) / (sz[j_] - sz[i_])
                                    Z.append(Vz[i_] + t_ * (Vz[j_] - Vz[i_]))
                            Z = np.array(Z)
                            k_ = m - 1
                            depth = 0.15 if k_ <= 2 else 0.25
                            cen = Z.mean(0)
                            Xs_ = np.asarray(X, dtype=float)
                            worst = 0.0
                            for z in Z:
                                u = z - cen
                                if np.linalg.norm(u) <= 1e-9 * ext:
                                    continue
                                hz = Z @ u
                                short = (hz.max() - float(np.max(Xs_ @ u))) / (hz.max() - hz.min())
                                worst = max(worst, short)
                            rec.stat_max("slice_coverage_shortfall", worst)
                            if worst > depth:
                                bad = ("e", "a part of the slice of the gamut at the requested total is never sampled (2000 samples stay %.0f %% of the slice's width away from one of its vertices)" % (100 * worst))
                        rec.outcome("system-%s/%s" % ("l1" if l1 is not None else "plain", "ok" if bad is None else "bad"))
                        if bad:
                            _v(rec, bad[0], dict(sig, what=bad[1][:40]), bad[1], case, observed=np.asarray(X)[:3], script=scr)
        rec.sample(dict(kind=kind, system=names), cap=1)
