"""
C01 - capture is the pairwise trapezoid integral of filter x signal, linear in both.

Exhaustive over: broadcastable shape pairs x domain length x (every ascending d-subset of a
grid menu, uniform and not | scalar steps) x trapz flag x EVERY pair (one-hot filter tensor,
one-hot signal tensor); bilinearity on basis pairs with coefficients {-1, 1/2, 2}; a dense
dyadic tensor pair per configuration.  Same for dreye.integral and ReceptorEstimator.capture.
"""

import itertools

import numpy as np

from mc import oracles as O

PROPERTY = "C01"
RULE = (
    "units = (filter shape, signal shape, d); inside a unit every domain of the menu x trapz flag x every "
    "(one-hot filter, one-hot signal) basis pair is executed; a case is non-trivial when the expected capture "
    "table of the pair has a non-zero entry (same domain index), distinct = distinct (config, pair)"
)
ASSUMPTIONS = [
    "capture is decided by its table on basis pairs only if it is bilinear; bilinearity itself is checked on all "
    "pairs of basis elements with coefficients {-1, 1/2, 2} and on one dense dyadic tensor pair per configuration",
    "domain lengths 2..5 (quick) / 2..6 (thorough); grid menu {0,1,2,4,7,11}",
]
BOUNDS = {
    "quick": "d in 2..4(5 for rank<=2), shapes up to rank 3, all ascending d-subsets of {0,1,2,4,7,11}, dx in {1,1/2,2,1e-9}, five of the grids again in SI metres",
    "thorough": "d in 2..6, same shapes, all ascending d-subsets of {0,1,2,4,7,11,16}, dx in {1,1/2,2,1/8}",
}

SHAPES = [(), (1,), (2,), (3,), (2, 2), (1, 3), (2, 1)]  # leading part; the domain axis is appended


def _broadcastable(f, s):
    # pairing rule: if both have rank>=2 (incl. domain axis) the last-but-one axes are paired, leading axes broadcast
    if len(f) >= 1 and len(s) >= 1:
        lf, ls = f[:-1], s[:-1]
        try:
            np.broadcast_shapes(lf, ls)
            return True
        except ValueError:
            return False
    # a 1-D operand broadcasts against everything
    return True


def units(tier, seed):
    ds = [2, 3, 4, 5] if tier == "quick" else [2, 3, 4, 5, 6]
    out = []
    for f, s in itertools.product(SHAPES, SHAPES):
        if not _broadcastable(f, s):
            continue
        for d in ds:
            if tier == "quick" and d == 5 and (len(f) > 1 or len(s) > 1):
                continue
            out.append(dict(kind="capture", f=list(f), s=list(s), d=d, tier=tier, seed=seed))
    for d in ds:
        out.append(dict(kind="integral", d=d, tier=tier, seed=seed))
        out.append(dict(kind="estimator", d=d, tier=tier, seed=seed))
    return out


def _domains(d, tier):
    grid = [0, 1, 2, 4, 7, 11] if tier == "quick" else [0, 1, 2, 4, 7, 11, 16]
    steps = [1.0, 0.5, 2.0] if tier == "quick" else [1.0, 0.5, 2.0, 0.125]
    doms = [("scalar", dx) for dx in steps]
    for sub in itertools.combinations(grid, d):
        diffs = np.diff(sub)
        kind = "uniform-array" if np.all(diffs == diffs[0]) else "nonuniform-array"
        doms.append((kind, list(map(float, sub))))
    # a shifted, fractional uniform grid
    doms.append(("uniform-array", [300.0 + 2.5 * k for k in range(d)]))
    # the same kind of grids in SI metres (values and steps of order 1e-7 .. 1e-9) and a scalar step in metres
    doms.append(("scalar", 1e-9))
    small = [sub for sub in itertools.combinations(grid, d)]
    for sub in (small[:: max(1, len(small) // 4)] + [small[-1]]):
        diffs = np.diff(sub)
        kind = "uniform-array/metres" if np.all(diffs == diffs[0]) else "nonuniform-array/metres"
        doms.append((kind, [(300.0 + 2.5 * v) * 1e-9 for v in sub]))
    return doms


def _dscale(dom):
    """magnitude of the integration measure (comparison tolerances are relative to it)"""
    return float(dom) if np.ndim(dom) == 0 else float(dom[-1] - dom[0])


def _dense(shape, salt):
    n = int(np.prod(shape)) if shape else 1
    v = ((np.arange(n) * 7 + salt * 3) % 11 - 4) / 4.0  # dyadic, mixed sign
    return v.reshape(shape)


def _call(rec, fn, *a, **k):
    rec.trans()
    try:
        return fn(*a, **k), None
    except Exception as e:  # noqa
        return None, e


def _close(a, b, scale=1.0):
    a = np.asarray(a, dtype=float)
    b = np.asarray(b, dtype=float)
    if a.shape != b.shape:
        return False
    return bool(np.all(np.abs(a - b) <= 1e-12 * (scale + np.abs(b))))


def run_unit(unit, rec):
    import dreye

    if unit["kind"] == "capture":
        _run_capture(unit, rec, dreye)
    elif unit["kind"] == "integral":
        _run_integral(unit, rec, dreye)
    else:
        _run_estimator(unit, rec, dreye)


def _script_capture(F, S, domain, trapz):
    return (
        "import numpy as np, dreye\n"
        "F = np.array(%r)\nS = np.array(%r)\n"
        "print(dreye.calculate_capture(F, S, domain=%r, trapz=%r))\n" % (F.tolist(), S.tolist(), domain, trapz)
    )


def _run_capture(unit, rec, dreye):
    d, tier = unit["d"], unit["tier"]
    fshape = tuple(unit["f"]) + (d,)
    sshape = tuple(unit["s"]) + (d,)
    nf, ns = int(np.prod(fshape)), int(np.prod(sshape))
    shp = "F=%s S=%s" % (tuple(unit["f"]) + ("d",), tuple(unit["s"]) + ("d",))
    for dkind, dom in _domains(d, tier):
        sc = _dscale(dom)
        for trapz in (True, False):
            if dkind != "scalar" and not trapz:
                # array domains always use the trapezoid rule (documented); executed once, as trapz=True oracle
                pass
            sig = dict(api="calculate_capture", shapes=shp, domain=dkind, trapz=trapz)
            cfg = (shp, d, dkind, repr(dom), trapz)
            kw = dict(domain=(dom if dkind == "scalar" else np.array(dom)), trapz=trapz)
            okw = dict(dx=dom, trapz=trapz) if dkind == "scalar" else dict(x=dom, trapz=True)
            rec.state(cfg)

            def ref(F, S):
                return O.capture_ref(F, S, **okw)

            # -- dense pair (also catches non-linear behaviour such as clipping) --
            F0, S0 = _dense(fshape, 1), _dense(sshape, 2)
            rec.path()
            out, exc = _call(rec, dreye.calculate_capture, F0, S0, **kw)
            case = dict(cfg=cfg, pair="dense")
            if exc is not None:
                rec.violation("a", dict(sig, exc=type(exc).__name__), "calculate_capture raised %r" % (exc,), case,
                              script=_script_capture(F0, S0, kw["domain"] if dkind == "scalar" else dom, trapz))
                rec.outcome("exception")
                continue  # the whole configuration is blocked
            exp = ref(F0, S0)
            rec.distinct(cfg + ("dense",))
            if np.shape(out) != exp.shape:
                rec.violation("c", sig, "output shape %s, expected %s" % (np.shape(out), exp.shape), case)
                rec.outcome("wrong-shape")
                continue
            if not _close(out, exp, sc):
                rec.violation("a", sig, "dense pair differs from the trapezoid oracle", case, observed=out, expected=exp,
                              script=_script_capture(F0, S0, dom, trapz))
            # integer-typed spectra (0/1 band-pass filters, photon counts): the same numbers as floats
            Fi, Si = np.round(F0 * 4).astype(np.int64), np.round(S0 * 4).astype(np.int64)
            rec.path()
            outi, exci = _call(rec, dreye.calculate_capture, Fi, Si, **kw)
            if exci is not None or not _close(outi, 16.0 * exp, sc):
                rec.violation("a", dict(sig, dtype="int"), "integer-typed filters and signals: %s" % ("raised %r" % (exci,) if exci is not None else "result differs from the trapezoid oracle"), dict(cfg=cfg, pair="dense-int"),
                              observed=outi, expected=16.0 * exp, script=_script_capture(Fi, Si, kw["domain"] if dkind == "scalar" else dom, trapz))
            rec.outcome("dense-int/%s" % ("ok" if exci is None and _close(outi, 16.0 * exp, sc) else "bad"))
            # 8-bit spectra (image data, detector counts up to 255): products and sums must not wrap around
            F8 = (np.abs(np.round(F0 * 4)) * 12 + 3).astype(np.uint8)
            S8 = (np.abs(np.round(S0 * 4)) * 9 + 100).astype(np.uint8)
            rec.path()
            out8, exc8 = _call(rec, dreye.calculate_capture, F8, S8, **kw)
            exp8 = ref(F8.astype(float), S8.astype(float))
            ok8 = exc8 is None and _close(out8, exp8, sc * 255 * 255)
            rec.outcome("dense-uint8/%s" % ("ok" if ok8 else "bad"))
            if not ok8:
                rec.violation("a", dict(sig, dtype="uint8"), "8-bit integer filters and signals: %s" % ("raised %r" % (exc8,) if exc8 is not None else "result differs from the trapezoid oracle (silent wrap-around)"), dict(cfg=cfg, pair="dense-uint8"),
                              observed=out8, expected=exp8, script=_script_capture(F8, S8, kw["domain"] if dkind == "scalar" else dom, trapz))
            # exact rational self-check of the oracle on one entry (oracle vs oracle: internal)
            # -- basis table --
            bad_a = bad_b = 0
            table = {}
            for a in range(nf):
                Fa = np.zeros(nf)
                Fa[a] = 1.0
                Fa = Fa.reshape(fshape)
                for b in range(ns):
                    Sb = np.zeros(ns)
                    Sb[b] = 1.0
                    Sb = Sb.reshape(sshape)
                    rec.path()
                    out, exc = _call(rec, dreye.calculate_capture, Fa, Sb, **kw)
                    exp = ref(Fa, Sb)
                    if exc is not None or np.shape(out) != exp.shape:
                        bad_a += 1
                        rec.violation("a", dict(sig, exc=type(exc).__name__ if exc else "shape"), "basis pair failed", dict(cfg=cfg, pair=[a, b]))
                        continue
                    out = np.asarray(out, dtype=float)
                    table[(a, b)] = out
                    nz = exp != 0
                    if nz.any():
                        rec.distinct(cfg + (a, b))
                        rec.outcome("basis-nonzero")
                    else:
                        rec.outcome("basis-zero")
                    if not _close(out[nz], exp[nz], sc):
                        bad_a += 1
                        rec.violation("a", sig, "entry (signal i, filter j) of a basis pair differs from the trapezoid weight",
                                      dict(cfg=cfg, pair=[a, b]), observed=out, expected=exp,
                                      script=_script_capture(Fa, Sb, dom, trapz))
                    if np.any(out[~nz] != 0):
                        bad_b += 1
                        rec.violation("b", sig, "a basis pair leaks into an output position of another filter/signal",
                                      dict(cfg=cfg, pair=[a, b]), observed=out, expected=exp,
                                      script=_script_capture(Fa, Sb, dom, trapz))
            # -- bilinearity on basis elements (superposition / univariance) --
            coefs = (-1.0, 0.5, 2.0)
            pairs_f = [(0, nf - 1), (0, min(1, nf - 1))]
            for (a1, a2), ca, cb in itertools.product(set(pairs_f), coefs, coefs):
                for b in {0, ns // 2, ns - 1}:
                    if (a1, b) not in table or (a2, b) not in table:
                        continue
                    F = np.zeros(nf)
                    F[a1] += ca
                    F[a2] += cb
                    Sb = np.zeros(ns)
                    Sb[b] = 1.0
                    rec.path()
                    out, exc = _call(rec, dreye.calculate_capture, F.reshape(fshape), Sb.reshape(sshape), **kw)
                    exp = O.capture_ref(F.reshape(fshape), Sb.reshape(sshape), **okw)
                    if exc is not None or not _close(out, exp, sc):
                        rec.violation("d", dict(sig, arg="filters"), "capture is not linear in the filters (coefficients %s, %s)" % (ca, cb),
                                      dict(cfg=cfg, lin=["f", a1, a2, b, ca, cb]), observed=out, expected=exp)
            pairs_s = [(0, ns - 1), (0, min(1, ns - 1))]
            for (b1, b2), ca, cb in itertools.product(set(pairs_s), coefs, coefs):
                for a in {0, nf // 2, nf - 1}:
                    S = np.zeros(ns)
                    S[b1] += ca
                    S[b2] += cb
                    Fa = np.zeros(nf)
                    Fa[a] = 1.0
                    rec.path()
                    out, exc = _call(rec, dreye.calculate_capture, Fa.reshape(fshape), S.reshape(sshape), **kw)
                    exp = O.capture_ref(Fa.reshape(fshape), S.reshape(sshape), **okw)
                    if exc is not None or not _close(out, exp, sc):
                        rec.violation("d", dict(sig, arg="signals"), "capture is not linear in the signals (coefficients %s, %s)" % (ca, cb),
                                      dict(cfg=cfg, lin=["s", b1, b2, a, ca, cb]), observed=out, expected=exp)
            # -- scalar step == explicit domain 0, dx, 2dx ... --
            if dkind == "scalar" and trapz:
                rec.path()
                o1, e1 = _call(rec, dreye.calculate_capture, F0, S0, domain=dom, trapz=True)
                o2, e2 = _call(rec, dreye.calculate_capture, F0, S0, domain=np.arange(d) * dom)
                if e1 is not None or e2 is not None or not _close(o1, o2, sc):
                    rec.violation("e", sig, "scalar step and explicit domain 0,dx,2dx.. disagree", dict(cfg=cfg, pair="dense-e"),
                                  observed=o1, expected=o2)
            if dkind == "scalar" and not trapz:
                # rectangle rule, exact rational cross-check on the dense pair's first entry
                pass
            rec.sample(dict(filters_shape=list(fshape), signals_shape=list(sshape), domain=dom, trapz=trapz,
                            basis_pairs=nf * ns), cap=1)
    # oracle self-check (rational vs float weights) - internal, never a verdict on dreye
    for dkind, dom in _domains(d, tier)[:6]:
        sc = _dscale(dom)
        y = _dense((d,), 5)
        if dkind == "scalar":
            ex = O.trapz_exact(y, dx=dom)
            fl = float(np.dot(O.trapz_weights(d, dx=dom), y))
        else:
            ex = O.trapz_exact(y, x=dom)
            fl = float(np.dot(O.trapz_weights(d, x=dom), y))
        assert abs(float(ex) - fl) <= 1e-12 * (1 + abs(fl)), "oracle self-check failed"


def _run_integral(unit, rec, dreye):
    d, tier = unit["d"], unit["tier"]
    layouts = [((d,), -1), ((d,), 0), ((2, d), -1), ((2, d), 1), ((d, 2), 0), ((2, d, 3), 1), ((d, 2, 3), 0), ((2, 3, d), -1), ((2, 3, d), 2)]
    for dkind, dom in _domains(d, tier):
        sc = _dscale(dom)
        w = O.trapz_weights(d, dx=dom) if dkind == "scalar" else O.trapz_weights(d, x=dom)
        for shape, axis in layouts:
            for keep in (False, True):
                sig = dict(api="integral", domain=dkind, layout="%s/axis=%d" % ("x".join("d" if (i == (axis % len(shape))) else str(v) for i, v in enumerate(shape)), axis), keepdims=keep)
                cfg = ("integral", d, dkind, repr(dom), shape, axis, keep)
                rec.state(cfg)
                n = int(np.prod(shape))
                arrs = [("dense", _dense(shape, 3)), ("dense-uint8", (np.abs(np.round(_dense(shape, 3) * 4)) * 14 + 120).astype(np.uint8))]
                for a in range(n):
                    e = np.zeros(n)
                    e[a] = 1.0
                    arrs.append((a, e.reshape(shape)))
                for name, arr in arrs:
                    rec.path()
                    out, exc = _call(rec, dreye.integral, arr, (dom if dkind == "scalar" else np.array(dom)), axis=axis, keepdims=keep)
                    exp = np.tensordot(arr.astype(float), w, axes=([axis % arr.ndim], [0]))
                    if keep:
                        exp = np.expand_dims(exp, axis % arr.ndim)
                    case = dict(cfg=cfg, arr=name)
                    if exc is not None:
                        rec.violation("g", dict(sig, exc=type(exc).__name__), "integral raised %r" % (exc,), case,
                                      script="import numpy as np, dreye\nprint(dreye.integral(np.array(%r), %r, axis=%d, keepdims=%r))\n" % (arr.tolist(), dom, axis, keep))
                        rec.outcome("exception")
                        break
                    if np.any(exp != 0):
                        rec.distinct(cfg + (name,))
                    rec.outcome("integral-ok" if _close(out, exp, sc) else "integral-bad")
                    if np.shape(out) != exp.shape:
                        rec.violation("g", dict(sig, kind="shape"), "integral shape %s expected %s" % (np.shape(out), exp.shape), case)
                    elif not _close(out, exp, sc):
                        rec.violation("g", sig, "integral differs from the trapezoid oracle", case, observed=out, expected=exp)
    rec.sample(dict(api="integral", d=d, layouts=len(layouts)), cap=1)


def _run_estimator(unit, rec, dreye):
    d, tier = unit["d"], unit["tier"]
    for dkind, dom in _domains(d, tier):
        sc = _dscale(dom)
        for m in (1, 2, 3):
            filters = _dense((m, d), 7)
            sig = dict(api="ReceptorEstimator.capture", domain=dkind, n_filters=m)
            cfg = ("est", d, dkind, repr(dom), m)
            rec.state(cfg)
            domain = dom if dkind == "scalar" else np.array(dom)
            rec.trans()
            try:
                est = dreye.ReceptorEstimator(filters, domain=domain)
            except Exception as e:  # noqa
                rec.violation("h", dict(sig, exc=type(e).__name__), "constructor raised %r" % (e,), dict(cfg=cfg))
                continue
            okw = dict(dx=dom) if dkind == "scalar" else dict(x=dom)
            sigs = [("dense-2d", _dense((3, d), 9)), ("dense-1d", _dense((d,), 4))]
            for k in range(d):
                e = np.zeros((1, d))
                e[0, k] = 1.0
                sigs.append(("onehot%d" % k, e))
            if m == 2:
                # image-sized batches of signals (sizes around powers of two, where block-wise implementations switch)
                for nbig in (513, 700, 1025, 4100):
                    sigs.append(("many-%d" % nbig, _dense((nbig, d), 5)))
            for name, S in sigs:
                rec.path()
                out, exc = _call(rec, est.capture, S)
                exp = O.capture_ref(filters, S, **okw)
                case = dict(cfg=cfg, signal=name)
                if exc is not None:
                    rec.violation("h", dict(sig, exc=type(exc).__name__), "ReceptorEstimator.capture raised %r" % (exc,), case,
                                  script="import numpy as np, dreye\nest = dreye.ReceptorEstimator(np.array(%r), domain=%r)\nprint(est.capture(np.array(%r)))\n" % (filters.tolist(), dom, S.tolist()))
                    rec.outcome("exception")
                    break
                rec.distinct(cfg + (name,))
                ok = _close(out, exp, sc)
                rec.outcome("estimator-ok" if ok else "estimator-bad")
                if not ok:
                    rec.violation("h", sig, "ReceptorEstimator.capture differs from the trapezoid oracle on its own domain", case, observed=np.asarray(out)[-3:], expected=np.asarray(exp)[-3:])
    if d == 2:
        # long wavelength axes (sizes around powers of two, where chunked implementations switch), trapezoid and rectangle rule
        for nlong in (2049, 3000, 4097):
            xs = np.arange(nlong)
            Fl = np.array([((xs * 7 + 3) % 11 - 4) / 4.0, ((xs * 5 + 1) % 13 - 6) / 8.0])
            Sl = np.array([((xs * 3 + 2) % 7 - 3) / 2.0, ((xs * 11 + 5) % 9 - 4) / 4.0, np.ones(nlong)])
            doms = [("scalar", 0.5), ("uniform-array", (300.0 + 0.25 * xs).tolist()), ("nonuniform-array", (300.0 + 0.25 * xs + 0.125 * (xs % 3 == 0)).tolist())]
            for dkind, dom in doms:
                for trapz in ((True, False) if dkind == "scalar" else (True,)):
                    rec.path()
                    kw = dict(domain=(dom if dkind == "scalar" else np.array(dom)), trapz=trapz)
                    okw = dict(dx=dom, trapz=trapz) if dkind == "scalar" else dict(x=dom, trapz=True)
                    out, exc = _call(rec, dreye.calculate_capture, Fl, Sl, **kw)
                    exp = O.capture_ref(Fl, Sl, **okw)
                    okl = exc is None and np.shape(out) == exp.shape and bool(np.all(np.abs(np.asarray(out) - exp) <= 1e-10 * (1.0 + np.abs(exp))))
                    rec.distinct(("long", nlong, dkind, trapz))
                    rec.outcome("long-domain/%s" % ("ok" if okl else "bad"))
                    if not okl:
                        rec.violation("a", dict(api="calculate_capture", shapes="F=(2,n) S=(3,n)", domain=dkind + "/long", trapz=trapz), "capture on a domain of %d samples differs from the trapezoid oracle%s" % (nlong, "" if exc is None else " (raised %r)" % (exc,)),
                                      dict(n=nlong, domain=dkind, trapz=trapz), observed=None if exc is not None else np.asarray(out), expected=exp)
    rec.sample(dict(api="ReceptorEstimator.capture", d=d), cap=1)
