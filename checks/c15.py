"""
C15 - results are equivariant under a change of physical units.

(system, target set) pairs x the full unit-change grid (s, c) in {1e-4, 1e-2, 0.1, 1/2, 2, 10, 1e2, 1e4}^2.
Twin: bounds / s, capture matrix x s x c (through the API: filters x c, sources x s), targets x c, baseline x c.
Metamorphic oracle with exact scale factors; asserted where both twins are in the well-scaled regime,
stress-explored (histogram only) elsewhere.
"""

import itertools
import warnings

import numpy as np

from mc import alphabets as AL
from mc import build as B
from mc import oracles as O
from mc.kernel import exc_sig

PROPERTY = "C15"
RULE = "unit = one system; paths = (in_hull, range_of_solutions, fit) on the base problem and on each of the 64 rescaled twins; non-trivial = twins inside the well-scaled regime (asserted); distinct by (system, s, c, query)"
ASSUMPTIONS = ["regime (from the property): both twins have gamut extent and |targets| in [1, 100] capture units and bounds in [0.05, 10]",
               "tolerances: membership identical for targets with |margin| >= 1e-6 extent; ranges 1e-7 relative; fits: 2e-2 capture units in each twin's own units (default solver)"]
BOUNDS = {"quick": "shapes 2x3 3x3 3x2 3x4 x 2 option variants; 8 targets; 64 unit changes; queries: membership, ranges, spaced solutions, fit, underdetermined fit", "thorough": "plus 2x4 4x4 4x5, seeded matrices"}
TECHNIQUE = "every (system, target) pair x the full 8x8 unit-change grid; metamorphic twin relation with exact scale factors"
LEVEL_TEXT = "every pair is re-expressed in each of 64 unit systems through the public API; gamut membership, solution ranges, uniquely determined fitted intensities, predicted captures and errors of the twin must be the exact rescaling of the base problem's; asserted inside the stated regime, recorded as a deviation histogram outside"
LEVEL_NOTE = "small scope; equivariance of solver-based answers only to the solver tolerance"
KE = ("exc", "msg", "query", "regime")
KV = ("query", "what", "regime")
GRID = [1e-4, 1e-2, 0.1, 0.5, 2.0, 10.0, 1e2, 1e4]


def _v(rec, clause, sig, *a, **k):
    rec.violation(clause, sig, *a, keys=(KE if "exc" in sig else KV), **k)


def units(tier, seed):
    shapes = [(2, 3), (3, 3), (3, 2), (3, 4)] + ([] if tier == "quick" else [(2, 4), (4, 4), (4, 5)])
    out = []
    for names, A, (lb, ub), K, bl in AL.systems(shapes, seed=seed, order=1, bounds=["ub-finite", "lb-mixed", "unbounded-lb"], Ks=["default", "vector"], baselines=["default", "vector"], seeded=(tier != "quick")):
        if names["A"] == "perm":
            continue
        out.append(dict(names=names, spec=B.spec_of(A, lb, ub, K, bl), tier=tier))
    # two sources with similar capture profiles (smallest singular value ~ 0.02, still captures >= 1 with bounds [0, 10]):
    # uniquely determined but sensitive fits
    An = np.array([[0.5, 0.52], [0.625, 0.6], [0.375, 0.41]])
    out.append(dict(names=dict(shape="3x2", A="near-collinear", bounds="0..10", K="default", baseline="default"), spec=B.spec_of(An, np.zeros(2), np.full(2, 10.0), None, None), tier=tier))
    out.append(dict(names=dict(shape="3x2", A="near-collinear", bounds="0..10", K="vector", baseline="vector"), spec=B.spec_of(An, np.zeros(2), np.full(2, 10.0), np.array([1.0, 0.75, 1.25]), np.array([0.25, 0.5, 0.125])), tier=tier))
    return out


def twin_spec(spec, s, c):
    t = dict(spec)
    t["A"] = (np.asarray(spec["A"]) * s * c).tolist()
    t["lb"] = None if spec["lb"] is None else (np.asarray(spec["lb"], dtype=float) / s).tolist()
    t["ub"] = None if spec["ub"] is None else (np.asarray(spec["ub"], dtype=float) / s).tolist()
    t["baseline"] = None if spec["baseline"] is None else (np.asarray(spec["baseline"], dtype=float) * c).tolist()
    return t


def make_twin(spec, s, c):
    """through the API: filters x c, sources x s"""
    import dreye

    filters, sources = B.filters_sources(spec["A"])
    kw = {}
    if spec["K"] is not None:
        kw["K"] = B.arr(spec["K"])
    if spec["baseline"] is not None:
        kw["baseline"] = np.asarray(spec["baseline"], dtype=float) * c
    est = dreye.ReceptorEstimator(filters * c, domain=1.0, **kw)
    lb = None if spec["lb"] is None else np.asarray(spec["lb"], dtype=float) / s
    ub = None if spec["ub"] is None else np.asarray(spec["ub"], dtype=float) / s
    est.register_system(sources * s, lb=lb, ub=ub)
    return est


def answers(est, T, under, inside=(), c=1.0):
    out = {}
    with warnings.catch_warnings():
        warnings.simplefilter("ignore")
        try:
            out["in_hull"] = np.asarray(est.in_hull(T))
        except Exception as e:  # noqa
            out["in_hull"] = e
        if under:
            try:
                mn, mx = est.range_of_solutions(T, error="ignore")
                out["range"] = (np.asarray(mn, dtype=float), np.asarray(mx, dtype=float))
            except Exception as e:  # noqa
                out["range"] = e
        try:
            X, Bp = est.fit(T)
            out["fit"] = (np.asarray(X, dtype=float), np.asarray(Bp, dtype=float))
        except Exception as e:  # noqa
            out["fit"] = e
        if under and len(inside):
            # requested spaced solutions and the minimum-norm underdetermined fit (allowed capture error given in the twin's own unit)
            try:
                r = est.range_of_solutions(T[inside], n=3)
                out["spaced"] = np.concatenate([np.asarray(a, dtype=float).reshape(-1, np.shape(r[0])[-1]) for a in r[2]])
            except Exception as e:  # noqa
                out["spaced"] = e
            try:
                X, Bp = est.fit_underdetermined(T[inside], l2_eps=1e-4 * c, solver="CLARABEL")
                out["underdetermined"] = (np.asarray(X, dtype=float), np.asarray(Bp, dtype=float))
            except Exception as e:  # noqa
                out["underdetermined"] = e
            try:
                X, Bp, _ = est.minimize_variance(T[inside], l2_eps=1e-4 * c, solver="CLARABEL")
                out["min-variance"] = (np.asarray(X, dtype=float), np.asarray(Bp, dtype=float))
            except Exception as e:  # noqa
                out["min-variance"] = e
    return out


def answers_L1(est, Tin, c, s, L1_base):
    """variance minimisation with a requested total intensity (given in the twin's intensity unit, tolerances in the twin's units)"""
    with warnings.catch_warnings():
        warnings.simplefilter("ignore")
        try:
            X, Bp, _ = est.minimize_variance(Tin, L1=L1_base / s, l2_eps=1e-4 * c, l1_eps=1e-2 / s, solver="CLARABEL")
            return (np.asarray(X, dtype=float), np.asarray(Bp, dtype=float))
        except Exception as e:  # noqa
            return e


def run_unit(unit, rec):
    spec, names = unit["spec"], unit["names"]
    Abar, c0, lo, hi = B.model_of(spec)
    m, n = Abar.shape
    under = n > m
    bounded = bool(np.all(np.isfinite(hi)))
    hi_f = np.where(np.isfinite(hi), hi, lo + 2.0)
    ext = float(np.max(np.abs(Abar) @ (hi_f - lo)))
    # targets with a clear margin (inside / outside) so that membership is decided
    X = AL.lattice(lo, hi_f, (0.3, 0.7))
    T = [c0 + Abar @ x for x in X[:: max(1, len(X) // 4)][:4]]
    fp = O.zono_facet_points(Abar, c0, lo, hi) if bounded else []
    for cen, nu in fp[:2]:
        T.append(cen + 0.1 * ext * nu)
        T.append(cen - 0.05 * ext * nu)
    for cen, nu in fp[:4]:
        # near-boundary targets on both sides, at three times the stated margin (1e-6 x extent) of C03
        T.append(cen + 3e-6 * ext * nu)
        T.append(cen - 3e-6 * ext * nu)
    if not fp and bounded:
        T.append(c0 + Abar @ hi * 1.5)
    if not bounded:
        apex = c0 + Abar @ lo
        T.append(apex - 0.3 * np.abs(Abar).sum(1))  # behind the apex: outside the cone
        T.append(apex + Abar @ (np.arange(n) + 0.5))
    T = np.array(T)
    mg = O.zono_margin(T, Abar, c0, lo, hi) if bounded else O.cone_margin(T, Abar, c0 + Abar @ lo)
    rec.trans(2)
    base_est = make_twin(spec, 1.0, 1.0)
    rec.state(B.state_key(base_est))
    rec.trans(3)
    inside_idx = np.flatnonzero(mg >= 1e-3 * ext)[:3] if (mg is not None and under and bounded) else np.arange(0)
    base = answers(base_est, T, under, inside_idx, 1.0)
    smin = np.linalg.svd(Abar, compute_uv=False)[min(m, n) - 1]
    unique = n <= m
    L1_base = None
    if "min-variance" in base and not isinstance(base["min-variance"], Exception):
        # requested totals above those of the unconstrained minimum-variance solutions (the lower edge of the band is the active one)
        tot_mv = np.sum(base["min-variance"][0], axis=1)
        tmax = []
        for i_ in inside_idx:
            V_ = O.poly_vertices(Abar, T[i_] - c0, lo, hi_f)
            tmax.append(float(V_.sum(1).max()) if len(V_) else -np.inf)
        tmax = np.array(tmax)
        if len(tmax) and np.all(tmax >= tot_mv + 0.1):
            # admissible: between the minimum-variance total and the largest total any reproducing intensity vector has
            L1_base = tot_mv + 0.5 * (tmax - tot_mv)
            base["min-variance-L1"] = answers_L1(base_est, T[inside_idx], 1.0, 1.0, L1_base)
    if unique:
        with warnings.catch_warnings():
            warnings.simplefilter("ignore")
            try:
                Xa, Ba = base_est.fit(T, solver="CLARABEL")
                base["fit-accurate"] = (np.asarray(Xa, dtype=float), np.asarray(Ba, dtype=float))
            except Exception as e:  # noqa
                base["fit-accurate"] = e
    for s, c in itertools.product(GRID, GRID):
        in_regime = bool(np.all(hi_f / s <= 10) and np.all(lo[lo > 0] / s >= 0.05) and np.all((hi_f - lo) / s >= 0.05) and 1.0 <= ext * c <= 100.0 and np.max(np.abs(T)) * c <= 100.0 and 1.0 <= ext <= 100.0)
        reg = "asserted" if in_regime else "stress"
        rec.path()
        rec.trans(5)
        try:
            tw = make_twin(spec, s, c)
            got = answers(tw, T * c, under, inside_idx, c)
        except Exception as e:  # noqa
            if in_regime:
                _v(rec, "a", dict(query="build", regime=reg, **exc_sig(e)), "building the rescaled twin raised %r" % (e,), dict(s=s, c=c))
            rec.outcome("%s/build-exception" % reg)
            continue
        if L1_base is not None:
            got["min-variance-L1"] = answers_L1(tw, (T * c)[inside_idx], c, s, L1_base)
        if unique:
            with warnings.catch_warnings():
                warnings.simplefilter("ignore")
                try:
                    Xa, Ba = tw.fit(T * c, solver="CLARABEL")
                    got["fit-accurate"] = (np.asarray(Xa, dtype=float), np.asarray(Ba, dtype=float))
                except Exception as e:  # noqa
                    got["fit-accurate"] = e
        if in_regime:
            rec.distinct((spec, s, c))
        for q in base:
            b0, g = base[q], got[q]
            sig = dict(query=q, regime=reg)
            case = dict(s=s, c=c, query=q)
            if isinstance(b0, Exception) or isinstance(g, Exception):
                same = isinstance(b0, Exception) and isinstance(g, Exception) and type(b0) is type(g)
                rec.outcome("%s/%s-%s" % (reg, q, "same-exception" if same else "exception-differs"))
                if in_regime and not same:
                    e = g if isinstance(g, Exception) else b0
                    _v(rec, "a", dict(sig, **exc_sig(e)), "%s raises on one twin only (s=%g, c=%g): %r" % (q, s, c, e), case)
                continue
            dev = 0.0
            bad = None
            if q == "in_hull":
                decided = mg is None or True
                idx = np.flatnonzero(np.abs(mg) >= 1e-6 * ext) if mg is not None else np.arange(len(T))
                if not np.array_equal(b0[idx], g[idx]):
                    bad = ("a", "gamut membership differs between the twins (s=%g, c=%g)" % (s, c))
                dev = float(np.mean(b0[idx] != g[idx])) if len(idx) else 0.0
            elif q == "range":
                d = max(np.max(np.abs(g[0] * s - b0[0])), np.max(np.abs(g[1] * s - b0[1])))
                dev = float(d / np.max(hi_f - lo))
                inside = np.flatnonzero(mg >= 1e-3 * ext) if mg is not None else np.arange(0)
                dI = max(np.max(np.abs(g[0][inside] * s - b0[0][inside]), initial=0.0), np.max(np.abs(g[1][inside] * s - b0[1][inside]), initial=0.0))
                if dI > 1e-7 * np.max(hi_f - lo):
                    bad = ("b", "solution ranges of the twin are not the base ranges divided by s (s=%g, c=%g, max dev %.3g)" % (s, c, dI))
            elif q == "spaced":
                d = float(np.max(np.abs(g * s - b0))) if g.shape == b0.shape else float("inf")
                dev = d / float(np.max(hi_f - lo))
                if d > 1e-7 * np.max(hi_f - lo):
                    bad = ("b", "requested spaced solutions of the twin are not the base solutions divided by s (s=%g, c=%g, max dev %.3g)" % (s, c, d))
            elif q == "fit-accurate":
                Xb, Pb = b0
                Xt, Pt = g
                # (flat gamuts, fewer sources than receptors: the first targets are images of interior intensity vectors)
                ins = np.flatnonzero(mg >= 1e-3 * ext) if mg is not None else np.arange(min(4, len(T)))
                if len(ins) == 0:
                    continue
                # in-gamut targets: the fit reproduces them, the intensities are determined to the solver's (interior-point) accuracy
                dX = float(np.max(np.abs(Xt[ins] * s - Xb[ins])))
                dP = float(np.max(np.abs(Pt[ins] / c - Pb[ins])))
                dev = dX / float(np.max(hi_f - lo))
                rec.stat_max("fit_accurate_dX_rel", dev if in_regime else 0.0)
                # interior-point accuracy: the uniquely determined intensities of the twins agree to 1e-5 of the bound range (measured: <= 1e-7)
                if dX > 1e-5 * np.max(hi_f - lo) or dP > 1e-5 * ext:
                    bad = ("c", "accurate fit: uniquely determined intensities / predictions of the twin are not the base ones divided by s / times c (s=%g, c=%g, dX %.3g, dP %.3g)" % (s, c, dX, dP))
            elif q == "min-variance-L1":
                Xb, Pb = b0
                Xt, Pt = g
                dX = float(np.max(np.abs(Xt * s - Xb)))
                dev = dX / float(np.max(hi_f - lo))
                rec.stat_max("minvar_L1_total_dev", float(np.max(np.abs(np.sum(Xt * s, axis=1) - np.sum(Xb, axis=1)))) if in_regime else 0.0)
                if float(np.max(np.abs(np.sum(Xt * s, axis=1) - np.sum(Xb, axis=1)))) > 1e-3:
                    bad = ("c", "variance minimisation with a requested total: the totals of the twin are not the base totals divided by s (s=%g, c=%g)" % (s, c))
            elif q in ("underdetermined", "min-variance"):
                Xb, Pb = b0
                Xt, Pt = g
                dP = float(np.max(np.abs(Pt / c - Pb)))
                dX = float(np.max(np.abs(Xt * s - Xb)))
                dev = dP / ext
                # both twins were allowed the same capture error (1e-4 in base units); minimum-norm solutions move by at most that error / smallest singular value
                if dP > 4e-4:
                    bad = ("d", "%s fit: predicted captures of the twin are not the base predictions times c (s=%g, c=%g, max dev %.4g)" % (q, s, c, dP))
                elif dX > 4e-4 / smin + 1e-4 * np.max(hi_f - lo):
                    bad = ("c", "%s fit: the selected intensities of the twin are not the base intensities divided by s (s=%g, c=%g, max dev %.4g)" % (q, s, c, dX))
            else:
                Xb, Pb = b0
                Xt, Pt = g
                dP = float(np.max(np.abs(Pt / c - Pb)))
                tolP = 2e-2 + 2e-2 / c
                dev = dP / ext
                if dP > tolP:
                    bad = ("d", "predicted captures of the twin are not the base predictions times c (s=%g, c=%g, max dev %.4g)" % (s, c, dP))
                elif unique and np.max(np.abs(Xt * s - Xb)) > 3 * tolP / smin + 0.02 * np.max(hi_f - lo):
                    bad = ("c", "uniquely determined intensities of the twin are not the base intensities divided by s (s=%g, c=%g)" % (s, c))
                else:
                    eb = np.linalg.norm(Pb - T, axis=1)
                    et = np.linalg.norm(Pt - T * c, axis=1) / c
                    if np.max(np.abs(eb - et)) > 2 * tolP:
                        bad = ("d", "fit errors of the twin are not the base errors times c (s=%g, c=%g)" % (s, c))
            decade = "<=1e-9" if dev <= 1e-9 else ("<=1e-6" if dev <= 1e-6 else ("<=1e-3" if dev <= 1e-3 else ("<=1e-1" if dev <= 1e-1 else ">1e-1")))
            rec.outcome("%s/%s-dev%s" % (reg, q, decade))
            if bad and in_regime:
                _v(rec, bad[0], dict(sig, what=bad[1][:40]), bad[1], case, observed=(g if q != "fit" else g[1])[:3] if not isinstance(g, tuple) else [np.asarray(v)[:2] for v in g],
                   expected=dict(base=(b0 if not isinstance(b0, tuple) else [np.asarray(v)[:2] for v in b0]), targets=T[:2]))
    rec.sample(dict(system=names, targets=len(T), grid=GRID), cap=1)
